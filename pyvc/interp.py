"""Symbolic executor over the real Python AST (see DESIGN.md section 2).

Forward execution with path splitting at statement-level branches whose two arms cannot be merged,
value-level merging (ite) otherwise; loops are cut at contract-supplied invariants; calls to
repository functions are replaced by the callee's contract; library calls by models in npmodel.py.
"""
from __future__ import annotations

import ast
import copy

import z3

from . import values as V
from .values import (
    Arr,
    CDict,
    CSet,
    GList,
    Grid,
    Outside,
    Rec,
    SymList,
    b_and,
    b_implies,
    b_not,
    b_or,
    is_scalar,
    is_sym,
    ite,
    merge,
    to_z3,
    truthy,
)

EXC_HIERARCHY = {
    "BaseException": None,
    "Exception": "BaseException",
    "ValueError": "Exception",
    "TypeError": "Exception",
    "KeyError": "LookupError",
    "IndexError": "LookupError",
    "LookupError": "Exception",
    "AssertionError": "Exception",
    "NotImplementedError": "RuntimeError",
    "RuntimeError": "Exception",
    "DeprecationWarning": "Warning",
    "Warning": "Exception",
    "StopIteration": "Exception",
    "AttributeError": "Exception",
    "ZeroDivisionError": "ArithmeticError",
    "ArithmeticError": "Exception",
    "FileNotFoundError": "OSError",
    "OSError": "Exception",
    "TokenError": "ValueError",
    "FilterInfoMismatchError": "ValueError",
    "AnyException": "Exception",  # adversarial: some Exception subclass we know nothing about
}


def exc_is_subclass(name, base):
    if base in ("AnyException",):
        return name == "AnyException"
    seen = name
    while seen is not None:
        if seen == base:
            return True
        seen = EXC_HIERARCHY.get(seen, "Exception" if seen not in ("BaseException",) else None)
        if seen == "Exception" and base == "Exception":
            return True
    return False


class Opaque:
    """a value we carry around but never look into (f-strings, messages, library objects)"""

    def __init__(self, what):
        self.what = what

    def __repr__(self):
        return f"Opaque({self.what})"

    def leaves(self):
        return []

    def rebuild(self, leaves):
        return self

    def sig(self):
        return ("Opaque", self.what)


PY_STR_INT = z3.Function("py.str_of_int", z3.IntSort(), z3.StringSort())
OBJ_SORT = z3.DeclareSort("Obj")  # python objects we never look into but whose identity matters (args tuples, kwargs dicts, ...)


class UPred:
    """an unknown pure callable (e.g. a user-supplied filter predicate): calling it yields an uninterpreted function of the
    argument values, so equal arguments give equal results and nothing else is known"""

    def __init__(self, name, result_kind="bool"):
        self.name = name
        self.result_kind = result_kind
        self.name_term = z3.String(name + ".__name__")

    def leaves(self):
        return []

    def rebuild(self, leaves):
        return self

    def sig(self):
        return ("UPred", self.name)

    def call(self, args, kwargs):
        from .values import leaves_of, to_z3, sort_for_kind

        flat = []
        for a in list(args) + [kwargs[k] for k in sorted(kwargs)]:
            for l in leaves_of(a):
                if l is None:
                    continue
                flat.append(z3.StringVal(l) if isinstance(l, str) else to_z3(l))
        fn = z3.Function(f"{self.name}!{len(flat)}!" + "_".join(str(x.sort()).replace(" ", "") for x in flat)[:200], *([x.sort() for x in flat] + [sort_for_kind(self.result_kind)]))
        return fn(*flat) if flat else z3.Const(self.name + "!const", sort_for_kind(self.result_kind))


class ObjMethod:
    """attribute `attr` of an opaque object: as a value it is the opaque object attr(base); called, it is an unknown function of the
    receiver and the arguments (equal receiver and arguments give the equal result; nothing else is known)"""

    def __init__(self, base, attr):
        self.base = base
        self.attr = attr
        self.value = z3.Function("attr." + attr, OBJ_SORT, OBJ_SORT)(base)

    def leaves(self):
        return [self.value]

    def rebuild(self, leaves):
        return leaves[0]

    def sig(self):
        return ("scalar", "Obj")


_OBJ_TRUTHY = z3.Function("obj.truthy", OBJ_SORT, z3.BoolSort())


def is_obj(v):
    return is_sym(v) and v.sort() == OBJ_SORT


class SuperRef:
    """`super()` inside a method of a repository class: the receiver and the base class the lookup continues at"""

    def __init__(self, self_val, base):
        self.self_val = self_val
        self.base = base

    def leaves(self):
        return []

    def rebuild(self, leaves):
        return self

    def sig(self):
        return ("SuperRef", self.base.name if self.base is not None else None)


class UFunc:
    """an unknown pure callable returning a value of a declared type: each distinct argument tuple yields one fresh value"""

    def __init__(self, name, result_type):
        self.name = name
        self.result_type = result_type
        self.name_term = z3.String(name + ".__name__")
        self.cache = []

    def leaves(self):
        return []

    def rebuild(self, leaves):
        return self

    def sig(self):
        return ("UFunc", self.name)

    def call(self, st, args, kwargs):
        from .values import leaves_of

        flat = []
        for a in list(args) + [kwargs[k] for k in sorted(kwargs)]:
            flat.extend(leaves_of(a))
        for key, val in self.cache:
            if len(key) == len(flat) and all((x is y) or (is_sym(x) and is_sym(y) and x.eq(y)) or (not is_sym(x) and not is_sym(y) and x == y) for x, y in zip(key, flat)):
                return val
        val, wf = self.result_type.fresh(self.name + ".result")
        for w in wf:
            st.assume(w)
        self.cache.append((flat, val))
        return val


class Native:
    def __init__(self, name, fn, mutates_self=False):
        self.name = name
        self.fn = fn

    def __repr__(self):
        return f"Native({self.name})"


class ModuleRef:
    def __init__(self, name):
        self.name = name

    def __repr__(self):
        return f"ModuleRef({self.name})"


class RepoFunc:
    def __init__(self, mod, node, cls=None, qualname=None, static=False, classmethod_=False, is_property=False):
        self.mod = mod
        self.node = node
        self.cls = cls  # ast.ClassDef or None
        self.qualname = qualname or node.name
        self.static = static
        self.classmethod_ = classmethod_
        self.is_property = is_property

    def __repr__(self):
        return f"RepoFunc({self.mod.relpath}:{self.qualname})"


class ClassRef:
    def __init__(self, mod, node):
        self.mod = mod
        self.node = node
        self.name = node.name

    def __repr__(self):
        return f"ClassRef({self.name})"


class BoundMethod:
    def __init__(self, self_val, func, self_node=None):
        self.self_val = self_val
        self.func = func
        self.self_node = self_node


class Closure:
    def __init__(self, node, env, mod, cls):
        self.node = node
        self.env = env
        self.mod = mod
        self.cls = cls


class ExcType:
    def __init__(self, name):
        self.name = name

    def __repr__(self):
        return f"ExcType({self.name})"


class ExcValue:
    def __init__(self, name):
        self.name = name


class SymRange:
    def __init__(self, lo, hi):
        self.lo, self.hi = lo, hi


class State:
    def __init__(self, env=None, pc=None, guards=None, mod=None, cls=None):
        self.env = env if env is not None else {}
        self.pc = pc if pc is not None else []
        self.guards = guards if guards is not None else []
        self.mod = mod
        self.cls = cls
        self.excs = []  # pending exceptional outcomes [(exc_name, State)]
        self.trace = []  # branch decisions, for labels
        self.tagmap = {}  # z3 ast id of a fact in pc -> tag ("inv:<label>", "lemma:<k>", "axiom:reach", ...)
        self.binders = []  # z3 variables bound by an enclosing comprehension / map over a symbolic-length sequence

    def copy(self):
        s = State(dict(self.env), list(self.pc), list(self.guards), self.mod, self.cls)
        s.trace = list(self.trace)
        s.tagmap = dict(self.tagmap)
        s.binders = list(self.binders)
        return s

    def assume(self, fact, tag=None):
        if fact is True:
            return
        if fact is False and __import__("os").environ.get("PYVC_DEBUG_FALSE"):
            import traceback

            traceback.print_stack(limit=8)
        if self.guards:
            fact = b_implies(b_and(*self.guards), fact)
        z = to_z3(fact)
        self.pc.append(z)
        if tag is not None:
            self.tagmap[z.get_id()] = tag

    def hyps(self):
        return list(self.pc) + [to_z3(g) for g in self.guards]


class Outcome:
    def __init__(self, kind, st, value=None, exc=None):
        self.kind = kind  # normal | return | raise | break | continue
        self.st = st
        self.value = value
        self.exc = exc


class Obligation:
    def __init__(self, label, kind, hyps, goal, fn, line=None, trace=None, meta=None):
        self.label = label
        self.kind = kind
        self.hyps = hyps
        self.goal = goal
        self.fn = fn
        self.line = line
        self.trace = trace or []
        self.meta = meta or {}
        self.result = None
        self.focus_hyps = None

    def smt2(self, focused=False):
        s = z3.Solver()
        for h in (self.focus_hyps if focused and self.focus_hyps is not None else self.hyps):
            s.add(h)
        s.add(z3.Not(to_z3(self.goal)))
        return s.to_smt2()


class Ctx:
    def __init__(self, repo, registry, fn_label="?", options=None):
        self.repo = repo
        self.registry = registry
        self.fn_label = fn_label
        self.obligations = []
        self.trivial = 0
        self.options = options or {}
        self.notes = []
        self.loop_counter = 0
        self.path_budget = self.options.get("path_budget", 512)
        self.paths = 0
        self.inline_depth = 0

    def oblige(self, st, goal, label, node=None, kind="assert", meta=None, focus=None):
        if goal is True:
            self.trivial += 1
            return
        hyps = st.hyps()
        focus_hyps = None
        if focus is not None:
            import fnmatch

            focus_hyps = []
            for h in hyps:
                tag = st.tagmap.get(h.get_id())
                if tag is None or any(fnmatch.fnmatch(tag, pat) for pat in focus):
                    focus_hyps.append(h)
        ob = Obligation(
            f"{self.fn_label}:{label}",
            kind,
            hyps,
            to_z3(goal) if not isinstance(goal, bool) else z3.BoolVal(goal),
            self.fn_label,
            getattr(node, "lineno", None),
            list(st.trace),
            meta,
        )
        ob.focus_hyps = focus_hyps
        self.obligations.append(ob)

    def feasible(self, st, timeout_ms=300):
        s = z3.Solver()
        # bounded by the wall clock AND the deterministic resource limit (guarded_check).  Under load the wall clock can cut a query that
        # would have been unsat: the path is then kept, and its obligations (with contradictory hypotheses) are discharged like any other -
        # the number of obligations may differ by a few between runs, the verdicts do not.  (Bounding by rlimit alone made the set
        # deterministic but the quick tier 2-5x slower: not adopted.)
        s.set("timeout", timeout_ms)
        for h in st.hyps():
            s.add(h)
        from .values import guarded_check

        if __import__("os").environ.get("PYVC_DUMP_FEASIBLE"):
            open(__import__("os").environ["PYVC_DUMP_FEASIBLE"], "w").write(s.to_smt2())
        return guarded_check(s, timeout_ms) != z3.unsat


# =====================================================================================
class Interp:
    def __init__(self, ctx: Ctx):
        self.ctx = ctx
        from . import npmodel

        self.lib = npmodel

    # ------------------------------------------------------------------ blocks
    def exec_block(self, stmts, st):
        live = [st]
        done = []
        for s in stmts:
            new_live = []
            for cur in live:
                for out in self.exec_stmt(s, cur):
                    if out.kind == "normal":
                        new_live.append(out.st)
                    else:
                        done.append(out)
            live = new_live
            if len(live) + len(done) > self.ctx.path_budget:
                raise Outside(f"path budget {self.ctx.path_budget} exceeded", s)
            if not live:
                break
        return done + [Outcome("normal", s_) for s_ in live]

    def _flush_excs(self, st, outs):
        """turn pending exceptional outcomes recorded during expression evaluation into outcomes"""
        for name, est in st.excs:
            outs.append(Outcome("raise", est, exc=name))
        st.excs = []

    def exec_stmt(self, node, st):
        m = getattr(self, "st_" + type(node).__name__, None)
        if m is None:
            raise Outside(f"statement {type(node).__name__}", node)
        outs = m(node, st)
        final = []
        ghosts = getattr(getattr(self.ctx, "current_contract", None), "ghost_after", None)
        lemmas_after = getattr(getattr(self.ctx, "current_contract", None), "lemma_after", None)
        for o in outs:
            if lemmas_after and o.kind == "normal" and self.ctx.inline_depth == 0:
                src = self.ctx.current_mod.lines[node.lineno - 1].strip() if hasattr(node, "lineno") else ""
                for prefix, lems in lemmas_after.items():
                    if src.startswith(prefix):
                        for lem in lems:
                            o.st.assume(self.ctx.registry.eval_clause(self, o.st, lem), tag="lemma-after")
            if ghosts and o.kind == "normal" and self.ctx.inline_depth == 0:
                src = self.ctx.current_mod.lines[node.lineno - 1].strip() if hasattr(node, "lineno") else ""
                for prefix, binds in ghosts.items():
                    if src.startswith(prefix):
                        for gname, expr in binds.items():
                            o.st.env[gname] = self.ctx.registry.eval_clause_value(self, o.st, expr)
            self._flush_excs(o.st, final)
            final.append(o)
        return final

    # ------------------------------------------------------------------ simple statements
    def st_Pass(self, node, st):
        return [Outcome("normal", st)]

    def st_Global(self, node, st):
        st.env.setdefault("__globals__", set())
        st.env["__globals__"] = set(st.env["__globals__"]) | set(node.names)
        return [Outcome("normal", st)]

    def st_Delete(self, node, st):
        for t in node.targets:
            if isinstance(t, ast.Name):
                st.env.pop(t.id, None)
            else:
                raise Outside("del of non-name", node)
        return [Outcome("normal", st)]

    def st_Expr(self, node, st):
        if isinstance(node.value, ast.Constant):
            return [Outcome("normal", st)]  # docstring
        self.ev(node.value, st)
        return [Outcome("normal", st)]

    def st_Assign(self, node, st):
        v = self.ev(node.value, st)
        for t in node.targets:
            self.assign(t, v, st)
        return [Outcome("normal", st)]

    def st_AnnAssign(self, node, st):
        if node.value is None:
            return [Outcome("normal", st)]
        v = self.ev(node.value, st)
        self.assign(node.target, v, st)
        return [Outcome("normal", st)]

    def st_AugAssign(self, node, st):
        cur = self.ev(node.target, st)
        rhs = self.ev(node.value, st)
        v = self.lib.binop(self, st, node.op, cur, rhs, node)
        self.assign(node.target, v, st)
        return [Outcome("normal", st)]

    def st_Return(self, node, st):
        v = self.ev(node.value, st) if node.value is not None else None
        return [Outcome("return", st, value=v)]

    def st_Break(self, node, st):
        return [Outcome("break", st)]

    def st_Continue(self, node, st):
        return [Outcome("continue", st)]

    def st_Import(self, node, st):
        return [Outcome("normal", st)]

    st_ImportFrom = st_Import

    def st_Raise(self, node, st):
        name = self._exc_name(node.exc, st)
        return [Outcome("raise", st, exc=name)]

    def _exc_name(self, e, st):
        if e is None:
            return "ReRaise"
        if isinstance(e, ast.Call):
            e = e.func
        if isinstance(e, ast.Name):
            v = st.env.get(e.id)
            if isinstance(v, ExcValue):
                return v.name
            return e.id
        if isinstance(e, ast.Attribute):
            return e.attr
        raise Outside("raise of computed exception", e)

    def st_Assert(self, node, st):
        c = truthy_value(self, st, self.ev(node.test, st))
        if c is True:
            return [Outcome("normal", st)]
        if c is False:
            return [Outcome("raise", st, exc="AssertionError")]
        bad = st.copy()
        bad.assume(b_not(c))
        bad.trace.append(f"assert-fails@{node.lineno}")
        st.assume(c)
        outs = [Outcome("normal", st)]
        if self.ctx.feasible(bad):
            outs.append(Outcome("raise", bad, exc="AssertionError"))
        return outs

    # ------------------------------------------------------------------ if
    def st_If(self, node, st):
        c = truthy_value(self, st, self.ev(node.test, st))
        if c is True:
            return self.exec_block(node.body, st)
        if c is False:
            return self.exec_block(node.orelse, st)
        st_t, st_f = st.copy(), st.copy()
        st_t.excs, st_f.excs = [], []
        pre_excs = st.excs
        st.excs = []
        st_t.assume(c)
        st_f.assume(b_not(c))
        outs_t = self.exec_block(node.body, st_t) if self.ctx.feasible(st_t) else []
        outs_f = self.exec_block(node.orelse, st_f) if self.ctx.feasible(st_f) else []
        res = None
        if (
            not self.ctx.options.get("no_merge")
            and len(outs_t) == 1
            and len(outs_f) == 1
            and outs_t[0].kind == outs_f[0].kind == "normal"
        ):
            merged = self._merge_states(c, st, outs_t[0].st, outs_f[0].st)
            if merged is not None:
                res = [Outcome("normal", merged)]
        if res is None:
            for o in outs_t:
                o.st.trace.append(f"if@{node.lineno}=T")
            for o in outs_f:
                o.st.trace.append(f"if@{node.lineno}=F")
            res = outs_t + outs_f
        if pre_excs and res:
            res[0].st.excs = pre_excs + res[0].st.excs
        elif pre_excs:
            # no live outcome: still report exceptional outcomes
            dummy = st.copy()
            dummy.excs = pre_excs
            outs = []
            self._flush_excs(dummy, outs)
            return outs
        return res

    def _merge_states(self, c, base, a, b):
        """merge two normal-exit states that forked from `base` on condition c"""
        try:
            env = {}
            keys = set(a.env) | set(b.env)
            for k in keys:
                if k == "__axioms__":
                    env[k] = a.env.get(k, frozenset()) & b.env.get(k, frozenset())
                    continue
                if k == "__names__":
                    env[k] = dict(base.env.get(k, {}))
                    continue
                if k == "__events__" and a.env.get(k) is not b.env.get(k):
                    return None  # different recorded calls on the two sides: keep the paths apart
                if k.startswith("__") and k in a.env and k in b.env and a.env[k] is b.env[k]:
                    env[k] = a.env[k]
                    continue
                if k.startswith("__"):
                    if k in base.env:
                        env[k] = base.env[k]
                    continue
                if k in a.env and k in b.env:
                    va, vb = a.env[k], b.env[k]
                    env[k] = va if va is vb else merge(c, va, vb)
                # a variable bound on one side only is dropped (use later -> unbound -> Outside)
        except Outside:
            return None
        n = len(base.pc)
        pc = list(base.pc)
        # facts added on either side stay, guarded by the side's condition
        ca, cb = to_z3(c), z3.Not(to_z3(c))
        for f in a.pc[n + 1 :]:
            pc.append(z3.Implies(ca, f))
        for f in b.pc[n + 1 :]:
            pc.append(z3.Implies(cb, f))
        out = State(env, pc, list(base.guards), base.mod, base.cls)
        out.trace = list(base.trace)
        out.excs = a.excs + b.excs
        out.tagmap = dict(base.tagmap)
        return out

    # ------------------------------------------------------------------ try
    def st_Try(self, node, st):
        if node.finalbody:
            raise Outside("try/finally", node)
        hnames = []
        for h in node.handlers:
            if h.type is None:
                hnames.append("BaseException")
            elif isinstance(h.type, ast.Tuple):
                hnames.extend(self._exc_name(e, st) for e in h.type.elts)
            else:
                hnames.append(self._exc_name(h.type, st))
        stack = self.ctx.__dict__.setdefault("try_handlers", [])
        stack.append(hnames)
        try:
            outs = self.exec_block(node.body, st)
        finally:
            stack.pop()
        res = []
        for o in outs:
            if o.kind == "normal" and node.orelse:
                res.extend(self.exec_block(node.orelse, o.st))
            elif o.kind == "raise":
                handled = False
                for h in node.handlers:
                    names = []
                    if h.type is None:
                        names = ["BaseException"]
                    elif isinstance(h.type, ast.Tuple):
                        names = [self._exc_name(e, st) for e in h.type.elts]
                    else:
                        names = [self._exc_name(h.type, st)]
                    if any(exc_is_subclass(o.exc, n) or (o.exc == "AnyException" and n == "Exception") for n in names):
                        hst = o.st
                        if h.name:
                            hst.env[h.name] = ExcValue(o.exc)
                        hst.trace.append(f"except@{h.lineno}:{o.exc}")
                        for ho in self.exec_block(h.body, hst):
                            if ho.kind == "raise" and ho.exc == "ReRaise":
                                ho.exc = o.exc
                            res.append(ho)
                        handled = True
                        break
                if not handled:
                    res.append(o)
            else:
                res.append(o)
        return res

    def st_With(self, node, st):
        raise Outside("with statement", node)

    def st_FunctionDef(self, node, st):
        st.env[node.name] = Closure(node, st.env, st.mod, st.cls)
        return [Outcome("normal", st)]

    def st_Match(self, node, st):
        subj = self.ev(node.subject, st)
        # desugar into if/elif on literal patterns
        outs = []
        cur = st
        for case in node.cases:
            if case.guard is not None:
                raise Outside("match guard", node)
            pat = case.pattern
            if isinstance(pat, ast.MatchValue):
                pv = self.ev(pat.value, cur)
                c = self.lib.compare(self, cur, ast.Eq(), subj, pv, node)
            elif isinstance(pat, ast.MatchAs) and pat.pattern is None:
                c = True
            else:
                raise Outside("match pattern", node)
            if c is True:
                outs.extend(self.exec_block(case.body, cur))
                cur = None
                break
            if c is False:
                continue
            st_t = cur.copy()
            st_t.assume(c)
            st_t.trace.append(f"case@{case.pattern.lineno}")
            if self.ctx.feasible(st_t):
                outs.extend(self.exec_block(case.body, st_t))
            cur.assume(b_not(c))
        if cur is not None and self.ctx.feasible(cur):
            outs.append(Outcome("normal", cur))
        return outs

    # ------------------------------------------------------------------ loops
    def st_While(self, node, st):
        return self._loop(node, st, kind="while")

    def st_For(self, node, st):
        it = self.ev(node.iter, st)
        seq = self.lib.iter_values(self, st, it, node)
        if isinstance(seq, list):
            return self._unrolled_for(node, st, seq)
        if isinstance(seq, GList):
            return self._glist_for(node, st, seq)
        return self._loop(node, st, kind="for", iterable=seq)

    def _unrolled_for(self, node, st, seq):
        if node.orelse:
            raise Outside("for/else", node)
        live = [st]
        done = []
        for item in seq:
            new_live = []
            for cur in live:
                self.assign(node.target, item, cur)
                for o in self.exec_block(node.body, cur):
                    if o.kind in ("normal", "continue"):
                        new_live.append(o.st)
                    elif o.kind == "break":
                        done.append(Outcome("normal", o.st))
                    else:
                        done.append(o)
            live = new_live
        return done + [Outcome("normal", s) for s in live]

    def _glist_for(self, node, st, gl, no_cut=False):
        """for x in <guarded list>: run the body under each guard and merge"""
        if not no_cut:
            spec = self.ctx.registry.loop_spec(self.ctx, node, st)
            if spec is not None and spec.spec.cut:
                return spec.run_cut(self, node, st, gl)
        live = [st]
        done = []
        for g, item in gl.items:
            new_live = []
            for cur in live:
                if g is True:
                    branches = [(True, cur)]
                else:
                    skip = cur.copy()
                    skip.assume(b_not(g))
                    take = cur
                    base_pc_len = len(cur.pc)
                    base = cur.copy()
                    take.assume(g)
                    branches = [(g, take)]
                self.assign(node.target, item, branches[0][1])
                outs = self.exec_block(node.body, branches[0][1])
                normal = [o for o in outs if o.kind in ("normal", "continue")]
                other = [o for o in outs if o.kind not in ("normal", "continue")]
                for o in other:
                    done.append(Outcome("normal", o.st) if o.kind == "break" else o)
                if g is True:
                    new_live.extend(o.st for o in normal)
                else:
                    merged = None
                    if len(normal) == 1 and not other:
                        merged = self._merge_states(g, base, normal[0].st, skip)
                    if merged is not None:
                        new_live.append(merged)
                    else:
                        new_live.extend(o.st for o in normal)
                        if self.ctx.feasible(skip):
                            new_live.append(skip)
            live = new_live
            if len(live) > self.ctx.path_budget:
                raise Outside("path budget exceeded in guarded for", node)
        return done + [Outcome("normal", s) for s in live]

    def _loop(self, node, st, kind, iterable=None):
        """loop cut at an invariant supplied by the contract"""
        spec = self.ctx.registry.loop_spec(self.ctx, node, st)
        if spec is None:
            raise Outside(f"loop without invariant at line {node.lineno}", node)
        return spec.run(self, node, st, kind, iterable)

    # ------------------------------------------------------------------ assignment
    def assign(self, target, v, st):
        if isinstance(target, ast.Name):
            if "__globals__" in st.env and target.id in st.env["__globals__"]:
                st.env["__global__:" + target.id] = v
            st.env[target.id] = v
            return
        if isinstance(target, (ast.Tuple, ast.List)):
            items = self.lib.iter_values(self, st, v, target)
            if not isinstance(items, list):
                raise Outside("unpacking of symbolic-length value", target)
            if len(items) != len(target.elts):
                raise Outside("unpacking length mismatch", target)
            for t, x in zip(target.elts, items):
                self.assign(t, x, st)
            return
        if isinstance(target, ast.Attribute):
            base = self.ev(target.value, st)
            new = self.lib.setattr_value(self, st, base, target.attr, v, target)
            self.assign(target.value, new, st)
            return
        if isinstance(target, ast.Subscript):
            base = self.ev(target.value, st)
            idx = self.ev_index(target.slice, st)
            new = self.lib.setitem(self, st, base, idx, v, target)
            self.assign(target.value, new, st)
            return
        if isinstance(target, ast.Call):
            # e.g. `x.copy()[...] = ` never happens; refuse
            raise Outside("assignment to call result", target)
        raise Outside(f"assignment target {type(target).__name__}", target)

    # ------------------------------------------------------------------ expressions
    def ev(self, node, st):
        m = getattr(self, "ev_" + type(node).__name__, None)
        if m is None:
            raise Outside(f"expression {type(node).__name__}", node)
        return m(node, st)

    def ev_Constant(self, node, st):
        return node.value

    def ev_Name(self, node, st):
        if node.id in st.env:
            return st.env[node.id]
        return self.lookup_global(node.id, st, node)

    def lookup_global(self, name, st, node=None):
        key = "__global__:" + name
        if key in st.env:
            return st.env[key]
        v = self.lib.resolve_global(self, st.mod, name, node)
        return v

    def ev_Tuple(self, node, st):
        return tuple(self._ev_elts(node.elts, st))

    def ev_List(self, node, st):
        if any(isinstance(e, ast.Starred) for e in node.elts):
            # [a, *xs, b] where some starred part has symbolic length: the concatenation
            parts, symbolic = [], False
            for e in node.elts:
                if isinstance(e, ast.Starred):
                    v = self.ev(e.value, st)
                    items = self.lib.iter_values(self, st, v, e)
                    if isinstance(items, SymList):
                        symbolic = True
                    elif not isinstance(items, list):
                        raise Outside("starred symbolic-length value", e)
                    parts.append(("many", items))
                else:
                    parts.append(("one", self.ev(e, st)))
            if symbolic:
                return self.lib.symlist_concat(self, st, parts, node)
            out = []
            for kind, v in parts:
                if kind == "one":
                    out.append(v)
                else:
                    out.extend(v)
            return out
        return list(self._ev_elts(node.elts, st))

    def _ev_elts(self, elts, st):
        out = []
        for e in elts:
            if isinstance(e, ast.Starred):
                v = self.ev(e.value, st)
                items = self.lib.iter_values(self, st, v, e)
                if not isinstance(items, list):
                    raise Outside("starred symbolic-length value", e)
                out.extend(items)
            else:
                out.append(self.ev(e, st))
        return out

    def ev_Set(self, node, st):
        raise Outside("set display", node)

    def ev_Dict(self, node, st):
        d = {}
        for k, v in zip(node.keys, node.values):
            if k is None:
                sub = self.ev(v, st)
                if not isinstance(sub, dict):
                    raise Outside("** of non-dict in dict display", node)
                d.update(sub)
                continue
            kk = self.ev(k, st)
            if isinstance(kk, tuple) and any(is_sym(x) for x in kk):
                if len(node.keys) != 1:
                    raise Outside("dict display with several symbolic keys", node)
                val = self.ev(v, st)
                return CDict.fresh("dict", len(kk), val, empty=True).set(kk, val)
            if not isinstance(kk, (str, int, tuple)):
                raise Outside("dict display with symbolic key", node)
            d[kk] = self.ev(v, st)
        return d

    def ev_JoinedStr(self, node, st):
        """f-string: the concatenation of its parts as a z3 string when every part is a string (or a non-negative int rendered by str());
        anything else (format specs, conversions, other types) stays opaque"""
        parts = []
        for v in node.values:
            if isinstance(v, ast.Constant) and isinstance(v.value, str):
                parts.append(z3.StringVal(v.value))
                continue
            if isinstance(v, ast.FormattedValue) and v.conversion == -1 and v.format_spec is None:
                try:
                    x = self.ev(v.value, st)
                except Outside:
                    return Opaque("fstring")
                if isinstance(x, str):
                    parts.append(z3.StringVal(x))
                    continue
                if is_sym(x) and x.sort() == z3.StringSort():
                    parts.append(x)
                    continue
                if isinstance(x, int) and not isinstance(x, bool):
                    parts.append(z3.StringVal(str(x)))
                    continue
                if is_sym(x) and x.sort() == z3.IntSort():
                    parts.append(PY_STR_INT(x))  # str(int): an uninterpreted rendering (the same number gives the same text)
                    continue
                if isinstance(x, ObjMethod):
                    x = x.value
                if is_obj(x):
                    # the text of an object we do not look into: an unknown but fixed function of the object
                    parts.append(z3.Function("obj.str", OBJ_SORT, z3.StringSort())(x))
                    continue
            return Opaque("fstring")
        if not parts:
            return ""
        if all(z3.is_string_value(p_) for p_ in parts):
            return "".join(p_.as_string() for p_ in parts)
        return z3.Concat(*parts) if len(parts) > 1 else parts[0]

    def ev_FormattedValue(self, node, st):
        return Opaque("fstring")

    def ev_Lambda(self, node, st):
        return Closure(node, st.env, st.mod, st.cls)

    def ev_UnaryOp(self, node, st):
        v = self.ev(node.operand, st)
        return self.lib.unop(self, st, node.op, v, node)

    def ev_BinOp(self, node, st):
        l = self.ev(node.left, st)
        r = self.ev(node.right, st)
        return self.lib.binop(self, st, node.op, l, r, node)

    def ev_BoolOp(self, node, st):
        is_and = isinstance(node.op, ast.And)
        vals = []
        pushed = 0
        result = None
        try:
            for k, e in enumerate(node.values):
                v = self.ev(e, st)
                last = k == len(node.values) - 1
                try:
                    t = truthy_value(self, st, v)
                except Outside:
                    t = None
                if t is None:
                    raise Outside("boolean operator on non-scalar operand", node)
                if isinstance(t, bool):
                    if is_and and not t:
                        # python returns this operand
                        result = v if not vals else b_and(*vals, False)
                        return result if not vals else False
                    if (not is_and) and t:
                        if not vals:
                            return v
                        return True if all(isinstance(x, bool) for x in vals) else b_or(*vals, True)
                    if last and not vals:
                        return v
                    continue
                vals.append(t)
                if not last:
                    st.guards.append(t if is_and else b_not(t))
                    pushed += 1
            if not vals:
                return True if is_and else False
            return b_and(*vals) if is_and else b_or(*vals)
        finally:
            for _ in range(pushed):
                st.guards.pop()

    def ev_IfExp(self, node, st):
        c = truthy_value(self, st, self.ev(node.test, st))
        if c is True:
            return self.ev(node.body, st)
        if c is False:
            return self.ev(node.orelse, st)
        st.guards.append(c)
        try:
            a = self.ev(node.body, st)
        finally:
            st.guards.pop()
        st.guards.append(b_not(c))
        try:
            b = self.ev(node.orelse, st)
        finally:
            st.guards.pop()
        try:
            return merge(c, a, b)
        except Outside:
            # values of different structure (e.g. an array and None): fine when the path condition already decides the test
            s_true, s_false = st.copy(), st.copy()
            s_true.assume(c)
            s_false.assume(b_not(c))
            if not self.ctx.feasible(s_false, timeout_ms=2000):
                return a
            if not self.ctx.feasible(s_true, timeout_ms=2000):
                return b
            raise

    def ev_Compare(self, node, st):
        left = self.ev(node.left, st)
        conj = []
        pushed = 0
        try:
            for op, rn in zip(node.ops, node.comparators):
                right = self.ev(rn, st)
                c = self.lib.compare(self, st, op, left, right, node)
                if len(node.ops) == 1:
                    return c
                if not is_scalar(c):
                    raise Outside("chained comparison of arrays", node)
                if c is False:
                    return False
                if c is not True:
                    conj.append(c)
                    st.guards.append(c)
                    pushed += 1
                left = right
            return b_and(*conj)
        finally:
            for _ in range(pushed):
                st.guards.pop()

    def ev_Attribute(self, node, st):
        base = self.ev(node.value, st)
        return self.lib.getattr_value(self, st, base, node.attr, node)

    def ev_index(self, sl, st):
        """evaluate a subscript: returns a scalar/value index, a python slice of values, or a tuple of those"""
        if isinstance(sl, ast.Tuple):
            return tuple(self.ev_index(e, st) for e in sl.elts)
        if isinstance(sl, ast.Slice):
            return slice(
                self.ev(sl.lower, st) if sl.lower is not None else None,
                self.ev(sl.upper, st) if sl.upper is not None else None,
                self.ev(sl.step, st) if sl.step is not None else None,
            )
        return self.ev(sl, st)

    def ev_Subscript(self, node, st):
        base = self.ev(node.value, st)
        idx = self.ev_index(node.slice, st)
        return self.lib.getitem(self, st, base, idx, node)

    def ev_Starred(self, node, st):
        raise Outside("starred expression", node)

    def ev_ListComp(self, node, st):
        return self.lib.comprehension(self, st, node, "list")

    def ev_GeneratorExp(self, node, st):
        return self.lib.comprehension(self, st, node, "gen")

    def ev_SetComp(self, node, st):
        return self.lib.comprehension(self, st, node, "set")

    def ev_DictComp(self, node, st):
        return self.lib.comprehension(self, st, node, "dict")

    def ev_Call(self, node, st):
        return self.lib.call(self, st, node)

    # ------------------------------------------------------------------ exceptions from expressions
    def raise_if(self, st, cond, exc_name, node=None):
        """record: if cond then exception exc_name is raised here; continue under not cond"""
        if cond is False:
            return
        est = st.copy()
        est.excs = []
        est.assume(cond)
        est.guards = []
        if st.guards:
            est.pc.extend(to_z3(g) for g in st.guards)
        est.trace.append(f"raises:{exc_name}@{getattr(node, 'lineno', '?')}")
        if self.ctx.feasible(est):
            st.excs.append((exc_name, est))
        st.assume(b_not(cond))


def truthy_value(interp, st, v):
    """python truthiness of any value"""
    if v is None:
        return False
    if isinstance(v, ObjMethod):
        v = v.value
    if is_obj(v):
        return _OBJ_TRUTHY(v)  # the truth value of an object we do not look into: an unknown but fixed function of it
    if isinstance(v, (bool, int, float, str)) or is_sym(v):
        return truthy(v)
    if isinstance(v, (list, tuple, dict)):
        return len(v) > 0
    if isinstance(v, SymList):
        return v.length > 0
    if isinstance(v, GList):
        n = v.length()
        return n > 0 if is_sym(n) else n > 0
    if isinstance(v, CSet):
        return v.card > 0 if is_sym(v.card) else v.card > 0
    if isinstance(v, CDict):
        return v.dom.card > 0
    if isinstance(v, Arr):
        if len(v.flat) == 1:
            return truthy(v.flat[0])
        raise Outside("truth value of an array with more than one element")
    if isinstance(v, (Rec, Opaque, Closure, RepoFunc, ClassRef, Native, BoundMethod)):
        return True
    raise Outside(f"truthiness of {type(v).__name__}")
