"""Discharge obligations: each is serialised to SMT-LIB 2 and checked in a worker process by z3
(python API, fixed seed); `unknown` is retried by z3 with a different configuration and then by
cvc5 when the formula is in cvc5's fragment."""
from __future__ import annotations

import multiprocessing as mp
import os
import subprocess
import tempfile
import time

Z3_TIMEOUT_MS = int(os.environ.get("PYVC_Z3_TIMEOUT_MS", "48000"))
CVC5_TIMEOUT_MS = int(os.environ.get("PYVC_CVC5_TIMEOUT_MS", "10000"))


_HINTS = None


def _hint_for(label):
    """which z3 configuration discharged this obligation when the baseline was written (solver_hints.json): tried first, so that an obligation the
    default tactic never decides does not spend two thirds of its budget before the configuration that does decide it gets a turn"""
    global _HINTS
    if _HINTS is None:
        import json
        import re

        path = os.path.join(os.path.dirname(os.path.dirname(os.path.abspath(__file__))), "solver_hints.json")
        try:
            _HINTS = json.load(open(path))
        except Exception:  # noqa: BLE001
            _HINTS = {}
    import re

    key = re.sub(r"@\d+(:\d+)?", "", re.sub(r"#p\d+$", "", label or ""))
    return _HINTS.get(key)


def _solve(task):
    idx, smt2, want_model, timeout_ms, focused = task[:5]
    hint = task[5] if len(task) > 5 else None
    if focused is not None:
        r = _solve((idx, focused, False, max(timeout_ms // 2, 4000), None, hint))
        if r[1] == "unsat":
            return (r[0], r[1], r[2] + "+focus", r[3], r[4], r[5])
        t_f = r[3]
        r2 = _solve((idx, smt2, want_model, timeout_ms, None, hint))
        return (r2[0], r2[1], r2[2], r2[3] + t_f, r2[4], r2[5])
    import z3

    t0 = time.time()
    res = "unknown"
    model = None
    backend = "z3"
    reason = ""
    try:
        # portfolio: the tactic-based solver (what the z3 CLI runs), then the plain SMT core, then E-matching only
        makers = (
            ("default-tactic", lambda: z3.Tactic("default").solver(), {}, 0.3),
            ("combined", lambda: z3.Solver(), {}, 0.3),  # what the z3 command line runs
            ("smt-core", lambda: z3.SimpleSolver(), {}, 0.25),
            ("ematching-only", lambda: z3.SimpleSolver(), {"smt.mbqi": False}, 0.15),
        )
        if hint:
            makers = tuple(m for m in makers if m[0] == hint) + tuple(m for m in makers if m[0] != hint)
        z3.set_param("smt.random_seed", 0)
        for name, mk, params, share in makers:
            z3.set_param("smt.mbqi", True)
            for k, v in params.items():
                z3.set_param(k, v)
            s = mk()
            s.set("timeout", max(int(timeout_ms * share), 2000))
            s.from_string(smt2)
            r = s.check()
            if r == z3.unsat:
                res = "unsat"
                backend = "z3:" + name
                break
            if r == z3.sat:
                res = "sat"
                backend = "z3:" + name
                if want_model:
                    m = s.model()
                    model = {}
                    for d in m.decls():
                        try:
                            if d.arity() == 0:
                                model[d.name()] = str(m[d])[:400]
                        except Exception:
                            pass
                break
            reason = (reason + " | " if reason else "") + f"{name}: {s.reason_unknown()}"
    except Exception as e:  # parse errors etc. are reported as unknown with the reason
        reason = f"z3 error: {str(e)[:300]}"
    if res == "unknown" and "Lambda" not in smt2 and "lambda" not in smt2:
        r2, why = _cvc5(smt2)
        if r2 in ("unsat",):
            res, backend = r2, "cvc5"
        elif why:
            reason += f" | cvc5: {why}"
    return idx, res, backend, time.time() - t0, model, reason


def _cvc5(smt2):
    try:
        with tempfile.NamedTemporaryFile("w", suffix=".smt2", delete=False, dir="/var/tmp") as f:
            f.write("(set-logic ALL)\n" + smt2 + "\n")
            path = f.name
        try:
            p = subprocess.run(
                ["/usr/bin/cvc5", f"--tlimit={CVC5_TIMEOUT_MS}", path],
                capture_output=True,
                text=True,
                timeout=CVC5_TIMEOUT_MS / 1000 + 10,
            )
            out = p.stdout.strip().splitlines()
            if out and out[0] in ("unsat", "sat", "unknown"):
                return out[0], out[0] if out[0] != "unsat" else ""
            return "unknown", (p.stderr or p.stdout)[:200]
        finally:
            os.unlink(path)
    except Exception as e:
        return "unknown", str(e)


def _child(task, conn):
    try:
        conn.send(_solve(task))
    except BaseException as e:  # noqa: BLE001
        try:
            conn.send((task[0], "unknown", "z3", 0.0, None, f"solver process error: {type(e).__name__}: {str(e)[:200]}"))
        except Exception:
            pass
    finally:
        conn.close()


def _run_guarded(tasks, procs, timeout_ms):
    """one forked process per obligation, at most `procs` at a time, each killed when it overruns a hard deadline: z3 does not always
    honour its own timeout (seen with lambdas / strings under quantifiers) and a hung solver must never hang a check.  A killed task is `unknown`."""
    ctx = mp.get_context("fork")
    # portfolio of four z3 configurations + cvc5, plus the focused first attempt: generous hard limit
    hard = (timeout_ms / 1000.0) * 2.2 + CVC5_TIMEOUT_MS / 1000.0 + 20.0
    pending = list(tasks)
    running = {}  # conn -> (proc, task, t0)
    results = []
    from multiprocessing.connection import wait

    while pending or running:
        while pending and len(running) < procs:
            task = pending.pop(0)
            parent, child = ctx.Pipe(duplex=False)
            pr = ctx.Process(target=_child, args=(task, child), daemon=True)
            pr.start()
            child.close()
            running[parent] = (pr, task, time.time())
        ready = wait(list(running), timeout=1.0)
        for conn in ready:
            pr, task, t0 = running.pop(conn)
            try:
                results.append(conn.recv())
            except (EOFError, OSError):
                results.append((task[0], "unknown", "z3", time.time() - t0, None, "solver process died"))
            conn.close()
            pr.join(timeout=5)
        now = time.time()
        for conn, (pr, task, t0) in list(running.items()):
            if now - t0 > hard:
                pr.kill()
                pr.join(timeout=5)
                running.pop(conn)
                conn.close()
                results.append((task[0], "unknown", "z3", now - t0, None, f"hard timeout after {hard:.0f}s (the solver ignored its own limit)"))
    return results


def discharge(obligations, procs=None, want_model=True, timeout_ms=None):
    """fills ob.result = dict(status, backend, seconds, model, reason) for each obligation"""
    procs = procs or min(16, os.cpu_count() or 4)
    timeout_ms = timeout_ms or Z3_TIMEOUT_MS
    tasks = []
    for k, ob in enumerate(obligations):
        tasks.append((k, ob.smt2(), want_model, timeout_ms, ob.smt2(focused=True) if getattr(ob, "focus_hyps", None) is not None else None, _hint_for(getattr(ob, "label", None))))
    if not tasks:
        return
    results = _run_guarded(tasks, min(procs, len(tasks)), timeout_ms)
    for idx, res, backend, secs, model, reason in results:
        obligations[idx].result = {
            "status": {"unsat": "discharged", "sat": "failed", "unknown": "undecided"}[res],
            "backend": backend,
            "seconds": round(secs, 3),
            "model": model,
            "reason": reason,
        }
