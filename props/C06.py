"""C06 - modular tokenization is a faithful, decodable encoding of the maze."""
ID = "C06"
LEVEL = "exploration"
LEVEL_TEXT = (
    "PROVED (z3, unbounded in the solution length): the leaves that carry the MEANING of the path tokens. get_cardinal_direction / get_relative_direction (NORTH/SOUTH/WEST/EAST with rows growing "
    "southwards and columns eastwards; FORWARD/BACKWARD/LEFT/RIGHT/STAY with left and right as seen on the drawn maze; ValueError exactly for non-steps); StepTokenizers.Cardinal.to_tokens (one token: the "
    "direction in which the path LEAVES the step's start) and StepTokenizers.Relative.to_tokens (one token: the turn relative to the direction of arrival, the agent facing north before the first step); "
    "StepSizes.Singles (every solution index), StepSizes.Forks (exactly the forks of the solution plus both ends, by the forking-point contract of C13) and step_start_end_indices (steps are the consecutive "
    "pairs of step ends, for any step size); is_connection (the connector / wall mark of an edge is edge(a,b), under C13). The composition of tokenizer elements (dynamic dispatch, region assembly, "
    "coordinate tokens, the Distance vocabulary lookup) is outside the verified subset and is decided by the bounded stand-in, which implements the statement's own quantifier: "
    + "PROVED (unbounded, z3): the two leaf functions that give direction tokens their meaning - get_cardinal_direction (rows grow southwards, columns eastwards) and get_relative_direction (STAY/BACKWARD/FORWARD and LEFT/RIGHT as rotations on the drawn maze, ValueError exactly for non-neighbouring or indeterminate inputs). Bounded, with the statement's own quantifier: an independent decoder configured only from the tokenizer's parameters recovers regions, edge sets with marks, origin, target and step sequences, exhaustively per region over all 216 adjacency-list and 1008 path element configurations (a stratified slice in the quick tier) plus a pairwise-covering set of full configurations, on mazes of all three kinds."
)
LEVEL_NOTE = "Trusted: pyvc encoding; np.concatenate / np.expand_dims library models. The dynamic composition of tokenizer elements is outside the verified subset; the bounded decoder is the harness's own."
TECHNIQUE = "bounded run-time checking of the real tokenizers against an independent decoder over enumerated element configurations and mazes + contracts on the direction / step-size / step-token leaves discharged by z3"
CONTRACT_MODULES = ["contracts.lattice_maze", "contracts.token_utils", "contracts.steps"]
TU = "maze_dataset/token_utils.py"
MT = "maze_dataset/tokenization/maze_tokenizer.py"
PROVE = [(TU, "get_cardinal_direction"), (TU, "get_relative_direction"), (MT, "StepTokenizers.Cardinal.to_tokens"), (MT, "StepTokenizers.Relative.to_tokens"),
         (MT, "StepSizes.Singles._step_single_indices"), (MT, "StepSizes.Forks._step_single_indices"), (MT, "StepSizes._StepSize.step_start_end_indices")]
ASSUMPTIONS = ["consecutive solution cells are lattice-adjacent (what SolvedMaze solutions are); start_index + 1 < len(solution)"]
EXPLANATION = "see DESIGN.md C06"


def run(run):
    from props._std import run_bounded

    if PROVE:
        run.prove(PROVE)
    run_bounded(run, "C06")
