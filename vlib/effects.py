"""Effect inventory for C04 (serial generation is a function of the configuration): every call made by the code on the generation path is
looked up in a table of effects; only the GLOBAL, SEEDED random streams (`random.*`, `np.random.*` module functions) may be drawn from between
seeding and return.  A private generator object (np.random.default_rng / RandomState / random.Random / SystemRandom - seeded once at import or
never), clocks, process ids, `os.urandom`, `uuid`, `secrets`, `id()` and `hash()` of strings are nondeterministic inputs: each such call site is a
failed frame obligation.  The walk is over the real AST of the current tree, by name (conservative): all of generation/generators.py plus the
functions of the solver / endpoint selection / item construction it feeds."""
from __future__ import annotations

import ast
import os

SEEDED_NP = {"rand", "randint", "choice", "shuffle", "random", "permutation", "uniform", "normal", "seed", "random_sample", "randn"}
SEEDED_PY = {"random", "randint", "choice", "shuffle", "sample", "uniform", "randrange", "seed", "choices", "gauss"}
PRIVATE_CTORS = {"default_rng", "RandomState", "Generator", "Random", "SystemRandom", "PCG64", "MT19937"}
NONDET_MODULES = {"time", "datetime", "uuid", "secrets"}
NONDET_CALLS = {("os", "urandom"), ("os", "getpid"), ("os", "times")}
NONDET_BUILTINS = {"id", "hash"}

FILES = {
    "maze_dataset/generation/generators.py": None,  # every function
    "maze_dataset/maze/lattice_maze.py": {"generate_random_path", "get_connected_component", "find_shortest_path", "get_coord_neighbors", "heuristic", "nodes_connected",
                                          "gen_connected_component_from", "get_nodes", "from_lattice_maze", "__post_init__", "_fill_edges_with_walls"},
    "maze_dataset/dataset/maze_dataset.py": {"_generate_maze_helper", "_maze_gen_init_worker", "generate"},
}


def _dotted(n):
    parts = []
    while isinstance(n, ast.Attribute):
        parts.append(n.attr)
        n = n.value
    if isinstance(n, ast.Name):
        parts.append(n.id)
        return list(reversed(parts))
    return None


def _module_bindings(tree):
    """name -> ('import', module) | ('from', module, name) | ('private-rng', ctor) | ('other',)"""
    out = {}
    for n in tree.body:
        if isinstance(n, ast.Import):
            for a in n.names:
                out[a.asname or a.name.split(".")[0]] = ("import", a.name)
        elif isinstance(n, ast.ImportFrom):
            for a in n.names:
                out[a.asname or a.name] = ("from", n.module or "", a.name)
        elif isinstance(n, (ast.Assign, ast.AnnAssign)):
            tgts = n.targets if isinstance(n, ast.Assign) else [n.target]
            val = n.value
            kind = ("other",)
            if isinstance(val, ast.Call):
                d = _dotted(val.func)
                if d and d[-1] in PRIVATE_CTORS:
                    kind = ("private-rng", ".".join(d))
            for t in tgts:
                if isinstance(t, ast.Name):
                    out[t.id] = kind
    return out


def inventory(root):
    """-> (sites examined, [violations])"""
    sites, bad = 0, []
    cache = {}

    def bindings_of(relpath):
        if relpath not in cache:
            p = os.path.join(root, relpath)
            cache[relpath] = _module_bindings(ast.parse(open(p).read())) if os.path.exists(p) else {}
        return cache[relpath]

    def resolve_from(module, name, depth=0):
        """follow `from <repo module> import name` to its definition"""
        if not module.startswith("maze_dataset") or depth > 4:
            return ("external", module, name)
        for rel in (module.replace(".", "/") + ".py", module.replace(".", "/") + "/__init__.py"):
            b = bindings_of(rel)
            if name in b:
                k = b[name]
                if k[0] == "from":
                    return resolve_from(k[1], k[2], depth + 1)
                return k
        return ("external", module, name)

    for rel, wanted in FILES.items():
        path = os.path.join(root, rel)
        if not os.path.exists(path):
            bad.append({"site": rel, "what": "file missing"})
            continue
        tree = ast.parse(open(path).read())
        binds = _module_bindings(tree)
        funcs = [n for n in ast.walk(tree) if isinstance(n, ast.FunctionDef) and (wanted is None or n.name in wanted)]
        for f in funcs:
            for c in ast.walk(f):
                if not isinstance(c, ast.Call):
                    continue
                d = _dotted(c.func)
                if not d:
                    continue
                sites += 1
                where = f"{rel}:{c.lineno} in {f.name}"
                rootname = d[0]
                b = binds.get(rootname)
                if b is not None and b[0] == "from":
                    b = resolve_from(b[1], b[2])
                    if b[0] == "external" and b[1] in NONDET_MODULES:
                        bad.append({"site": where, "what": f"call of {'.'.join(d)} ({b[1]}.{b[2]}): a clock / id source"})
                        continue
                if b is not None and b[0] == "private-rng":
                    bad.append({"site": where, "what": f"draw from the private generator object `{rootname}` ({b[1]}): not reseeded by the configuration's seed"})
                    continue
                if len(d) >= 2 and d[-1] in PRIVATE_CTORS and d[0] in ("np", "numpy", "random"):
                    bad.append({"site": where, "what": f"{'.'.join(d)}(...) creates a random generator of its own inside the generation path"})
                    continue
                if b is not None and b[0] == "import":
                    mod = b[1].split(".")[0]
                    if mod in NONDET_MODULES:
                        bad.append({"site": where, "what": f"call of {'.'.join(d)}: a clock / id source"})
                    elif (mod, d[-1]) in NONDET_CALLS:
                        bad.append({"site": where, "what": f"call of {'.'.join(d)}: nondeterministic"})
                    elif mod == "numpy" and len(d) >= 3 and d[1] == "random" and d[2] not in SEEDED_NP:
                        bad.append({"site": where, "what": f"np.random.{d[2]}: not one of the seeded module-level functions"})
                    elif mod == "random" and len(d) == 2 and d[1] not in SEEDED_PY:
                        bad.append({"site": where, "what": f"random.{d[1]}: not one of the seeded module-level functions"})
                    continue
                if len(d) == 1 and rootname in NONDET_BUILTINS and rootname not in binds:
                    bad.append({"site": where, "what": f"{rootname}(...): process-dependent value"})
    return sites, bad
