"""Sidecar contracts for the rasterized post-processing helpers (C17)."""
from pyvc.contracts import contract, Loop, REGISTRY
from pyvc import tys as T

LM = "maze_dataset/maze/lattice_maze.py"
RZ = "maze_dataset/dataset/rasterized.py"

IMG = T.GridT("int", [None, None, 3])
_WALL = "(image[{p}, {q}, 0] == 0 and image[{p}, {q}, 1] == 0 and image[{p}, {q}, 2] == 0)"
# outside the image counts as wall
_WALL_OR_OUT = "({p} < 0 or {p} >= H or {q} < 0 or {q} >= W or " + _WALL + ")"


def _w(p, q):
    return _WALL_OR_OUT.format(p=p, q=q)


@contract(LM, "_remove_isolated_cells")
class remove_isolated_cells:
    params = dict(image=IMG)
    lets = dict(H="image.shape[0]", W="image.shape[1]")
    ensures = {
        "C17.isolated.shape": "result.shape == (H, W, 3)",
        # open pixels with no open 4-neighbour become wall, everything else is unchanged
        "C17.isolated": "forall(lambda p, q, c: result[p, q, c] == ite("
        f"not {_WALL.format(p='p', q='q')} and {_w('p', 'q + 1')} and {_w('p', 'q - 1')} and {_w('p + 1', 'q')} and {_w('p - 1', 'q')},"
        " 0, image[p, q, c]), (0, H), (0, W), (0, 3))",
    }
    result = lambda env: T.GridT("int", [env["H"], env["W"], 3])
    pure_result = True
    props = ["C17"]


@contract(RZ, "_extend_pixels")
class extend_pixels:
    params = dict(image=IMG, n_mult=T.Const(2), n_bdry=T.Const(1))
    lets = dict(H="image.shape[0]", W="image.shape[1]")
    ensures = {
        "C17.extend.shape": "result.shape == (2 * H + 2, 2 * W + 2, 3)",
        # each pixel doubled in both directions, inside a one-pixel wall frame
        "C17.extend": "forall(lambda p, q, c: result[p, q, c] == ite(1 <= p and p <= 2 * H and 1 <= q and q <= 2 * W,"
        " image[(p - 1) // 2, (q - 1) // 2, c], 0), (0, 2 * H + 2), (0, 2 * W + 2), (0, 3))",
    }
    result = lambda env: T.GridT("int", [2 * env["H"] + 2, 2 * env["W"] + 2, 3])
    pure_result = True
    props = ["C17"]


# ------------------------------------------------------------------------------------------- input / target images
import contracts.pixels as PX  # noqa: E402

SOLVED_M = T.RecT("SolvedMaze", connection_list=T.GridT("bool", [2, None, None]), start_pos=T.Coord, end_pos=T.Coord, solution=T.GridT("int", [None, 2], min_dim=1))
FLAG = T.OneOf(T.Const(True), T.Const(False))
_P = "maze.as_pixels(show_endpoints=True, show_solution=True)"


def _is(img, colour, p="p", q="q"):
    return f"rgb_is({img}, {p}, {q}, PixelColors.{colour})"


# the input image: the maze's pixel image with the solution hidden (path pixels shown as open, endpoints kept)
_INPUT = f"forall(lambda p, q: ({_is('final(g_in)', 'OPEN')} if {_is(_P, 'PATH')} else same_pixel(final(g_in), {_P}, p, q)), (0, H), (0, W))"
# the target image: wall everywhere except the solution pixels, which are open, with the endpoints coloured or opened as the option says
_TARGET = (
    f"forall(lambda p, q: ({_is('final(g_tg)', 'OPEN')} if {_is(_P, 'PATH')} else"
    f" ({_is('final(g_tg)', 'WALL')} if ({_is(_P, 'OPEN')} or {_is(_P, 'WALL')}) else"
    f" ({_is('final(g_tg)', 'OPEN')} if endpoints_as_open else same_pixel(final(g_tg), {_P}, p, q)))), (0, H), (0, W))"
)
_POST = ("_extend_pixels(_remove_isolated_cells({x}))" if True else "")


def _post(x):
    return f"(_extend_pixels(_remove_isolated_cells({x})) if extend_pixels else _remove_isolated_cells({x})) if remove_isolated_cells else (_extend_pixels({x}) if extend_pixels else {x})"


@contract(RZ, "process_maze_rasterized_input_target")
class process_maze_rasterized_input_target:
    params = dict(maze=SOLVED_M, remove_isolated_cells=FLAG, extend_pixels=FLAG, endpoints_as_open=FLAG)
    lets = dict(H="2 * maze.connection_list.shape[1] + 1", W="2 * maze.connection_list.shape[2] + 1")
    requires = [r.replace("self", "maze").replace("not has_field(maze, 'start_pos') or ", "").replace("not has_field(maze, 'solution') or ", "") for r in PX.as_pixels.requires]
    # the two images after the colour rewriting, before the optional post-processing
    ghost_after = {"if endpoints_as_open:": {"g_in": "problem_maze", "g_tg": "solution_maze"}}
    ensures = {
        "C17.input": _INPUT,
        "C17.target": _TARGET,
        # optional post-processing: isolated-cell removal first, then pixel extension, each exactly as its own contract says, on both images
        "C17.post.input": f"same_grid(result[0], {_post('final(g_in)')})",
        "C17.post.target": f"same_grid(result[1], {_post('final(g_tg)')})",
        "C17.shape": "result.shape == ((2, 2 * H + 2, 2 * W + 2, 3) if extend_pixels else (2, H, W, 3))",
    }
    result = T.GridT("int", [2, None, None, 3])
    pure_result = True
    props = ["C17"]


RCFG = T.RecT("RasterizedMazeDatasetConfig", remove_isolated_cells=FLAG, extend_pixels=FLAG, endpoints_as_open=FLAG)
RDS = T.RecT("RasterizedMazeDataset", cfg=RCFG, mazes=T.ListT(SOLVED_M))


@contract(RZ, "RasterizedMazeDataset.__getitem__")
class rasterized_getitem:
    """item idx is the input/target pair of the idx-th maze, built with the dataset's own three configuration flags (each passed to its own parameter)"""
    params = dict(self=RDS, idx=T.Int)
    requires = ["0 <= idx", "idx < len(self.mazes)"] + [r.replace("maze.", "self.mazes[idx].").replace("maze,", "self.mazes[idx],").replace("(maze)", "(self.mazes[idx])")
                                                        for r in process_maze_rasterized_input_target.requires]
    ensures = {
        "C17.item": "same_value(result, process_maze_rasterized_input_target(maze=self.mazes[idx], remove_isolated_cells=self.cfg.remove_isolated_cells,"
        " extend_pixels=self.cfg.extend_pixels, endpoints_as_open=self.cfg.endpoints_as_open))",
        "C17.item.shape": "result.shape == ((2, 4 * self.mazes[idx].connection_list.shape[1] + 4, 4 * self.mazes[idx].connection_list.shape[2] + 4, 3) if self.cfg.extend_pixels"
        " else (2, 2 * self.mazes[idx].connection_list.shape[1] + 1, 2 * self.mazes[idx].connection_list.shape[2] + 1, 3))",
    }
    # only the identity and the shape of the callee's result are needed here (its other postconditions speak about ghost images the caller cannot see)
    uses_ensures = {"process_maze_rasterized_input_target": ["C17.shape"]}
    result = T.GridT("int", [2, None, None, 3])
    pure_result = True
    options = dict(no_concrete=True)
    props = ["C17"]


REGISTRY.inlinable.update({("maze_dataset/dataset/maze_dataset.py", "MazeDataset.__len__")})
REGISTRY.class_files.update({"RasterizedMazeDataset": RZ, "MazeDataset": "maze_dataset/dataset/maze_dataset.py"})
_ITEM_REQ = [r.replace("maze.", "self.mazes[mz].").replace("maze,", "self.mazes[mz],").replace("(maze)", "(self.mazes[mz])") for r in process_maze_rasterized_input_target.requires]


@contract(RZ, "RasterizedMazeDataset.get_batch")
class rasterized_get_batch:
    """slot k of the batch is item idxs[k] of the dataset (all items when idxs is None): inputs in result[0], targets in result[1], in the order requested"""
    # the three flags are symbolic booleans here (they only travel through to __getitem__)
    params = dict(self=T.RecT("RasterizedMazeDataset", cfg=T.RecT("RasterizedMazeDatasetConfig", remove_isolated_cells=T.Bool, extend_pixels=T.Bool, endpoints_as_open=T.Bool), mazes=T.ListT(SOLVED_M)),
                  idxs=T.OneOf(T.NoneT(), T.ListT(T.Int)))
    lets = dict(n="len(self.mazes) if idxs is None else len(idxs)")
    requires = [
        "n >= 1",  # zip(*[]) yields nothing to unpack and torch.stack refuses an empty list
        "idxs is None or forall(lambda k: 0 <= idxs[k] and idxs[k] < len(self.mazes), (0, len(idxs)))",
        # one grid shape (torch.stack needs images of one shape)
        "forall(lambda mz: self.mazes[mz].connection_list.shape[1] == self.mazes[0].connection_list.shape[1] and self.mazes[mz].connection_list.shape[2] == self.mazes[0].connection_list.shape[2], (0, len(self.mazes)))",
    ] + ["forall(lambda mz: " + r + ", (0, len(self.mazes)))" for r in _ITEM_REQ]
    ensures = {
        "C17.batch.shape": "result.shape[0] == 2 and result.shape[1] == n and result.shape[4] == 3",
        "C17.batch.order": "forall(lambda k: same_value(result[0][k], self[k if idxs is None else idxs[k]][0]) and same_value(result[1][k], self[k if idxs is None else idxs[k]][1]), (0, n))",
    }
    uses_ensures = {"RasterizedMazeDataset.__getitem__": ["C17.item.shape"]}
    options = dict(no_concrete=True)
    props = ["C17"]
