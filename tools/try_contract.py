import sys, importlib, time
sys.path.insert(0, "/verif")
from pyvc.contracts import REGISTRY
from pyvc import spec
from pyvc.repo import Repo
from pyvc.driver import verify_contract
from pyvc.discharge import discharge
REGISTRY.spec_functions.update(spec.SPEC_FUNCTIONS)
mods = sys.argv[1].split(",")
for m in mods:
    importlib.import_module(m)
want = sys.argv[2:] 
repo = Repo()
for key, c in REGISTRY.contracts.items():
    if want and c.qualname not in want: continue
    if c.assumed: continue
    t=time.time()
    rep = verify_contract(REGISTRY, repo, c)
    print(f"== {c.qualname}: {rep.status} {rep.reason or ''} obligations={len(rep.obligations)} trivial={rep.trivial} paths={rep.paths} gen={rep.gen_seconds:.2f}s")
    print("   vacuity:", rep.vacuity.get("requires_sat"), "canaries", {r: rep.vacuity.get("canaries", []).count(r) for r in set(rep.vacuity.get("canaries", []))}, "dead", rep.vacuity.get("dead_paths"))
    discharge(rep.obligations)
    for ob in rep.obligations:
        r = ob.result
        flag = "" if r["status"]=="discharged" else "   <<<<<<"
        print(f"   {r['status']:10s} {r["backend"]:18s} {r['seconds']:7.2f}s  {ob.label}{flag}")
        if r["status"]=="failed" and r["model"]:
            print("      model:", {k:v for k,v in list(r["model"].items())[:25]})
        if r["status"]=="undecided": print("      reason:", r["reason"]); print("      trace:", ob.trace[-6:])
