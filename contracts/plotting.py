"""Sidecar contracts for the maze plot (C20): the image builder and the (row, col) -> (x, y) map."""
from pyvc.contracts import contract, Loop
from pyvc import tys as T

PM = "maze_dataset/plotting/plot_maze.py"
# unit_length: the default 14 and four small values (the index arithmetic `row * unit_length` is linear only for a constant)
UL = T.OneOf(T.Const(14), T.Const(3), T.Const(4), T.Const(5), T.Const(8))
PLOT = T.RecT("MazePlot", maze=T.Maze(), unit_length=UL, node_values=T.Const(None))


@contract(PM, "MazePlot._rowcol_to_coord")
class rowcol_to_coord:
    params = dict(self=T.RecT("MazePlot", unit_length=T.Nat), point=T.Coord)
    ensures = {
        # rows map to the vertical (y) axis and columns to the horizontal (x) axis, through the centre of the cell's unit square
        "C20.x-from-column": "result[0] == self.unit_length * (point[1] + 0.5)",
        "C20.y-from-row": "result[1] == self.unit_length * (point[0] + 0.5)",
    }
    result = T.ArrT((2,), "float")
    props = ["C20"]


_UL = "self.unit_length"
_R = "self.maze.connection_list.shape[1]"
_C = "self.maze.connection_list.shape[2]"
_H = f"({_R} * {_UL} + 1)"
_W = f"({_C} * {_UL} + 1)"


def _val(rows_done, row_now=None, cols_done=None):
    """the value of pixel (p, q) once the cell rows below `rows_done` (and, in row `row_now`, the columns below `cols_done`) are painted"""
    cell_row = f"(p - 1) // {_UL}"
    cell_col = f"(q - 1) // {_UL}"
    def painted(r, c):
        if row_now is None:
            return f"({r} < {rows_done})"
        return f"({r} < {row_now} or ({r} == {row_now} and {c} < {cols_done}))"
    block = f"(p % {_UL} != 0 and q % {_UL} != 0 and {painted(cell_row, cell_col)})"
    down = (f"(p % {_UL} == 0 and p >= {_UL} and q % {_UL} != 0 and {painted(f'p // {_UL} - 1', cell_col)}"
            f" and self.maze.connection_list[0, p // {_UL} - 1, {cell_col}])")
    right = (f"(q % {_UL} == 0 and q >= {_UL} and p % {_UL} != 0 and {painted(cell_row, f'q // {_UL} - 1')}"
             f" and self.maze.connection_list[1, {cell_row}, q // {_UL} - 1])")
    # one block per cell (value 1), one strip per lattice edge: passage (the connection value) exactly when the two cells are connected, wall (-1) otherwise
    return f"ite({block}, 1.0, ite({down} or {right}, connection_val_scale, -1.0))"


def _img(rows_done, row_now=None, cols_done=None, name="img"):
    return f"forall(lambda p, q: {name}[p, q] == {_val(rows_done, row_now, cols_done)}, (0, {_H}), (0, {_W}))"


@contract(PM, "MazePlot._lattice_maze_to_img")
class lattice_maze_to_img:
    params = dict(self=PLOT, connection_val_scale=T.Real)
    requires = [f"{_R} >= 1", f"{_C} >= 1", "self.maze.connection_list.shape[0] == 2"]
    ensures = {
        "C20.image.shape": f"result.shape == ({_H}, {_W})",
        "C20.image": _img(_R, name="result"),
    }
    loops = {
        0: Loop(head="for row in range(self.maze.grid_shape[0])", havoc=dict(img=T.GridT("float", [None, None])),
                inv={"shape": f"img.shape == ({_H}, {_W})", "rows-done": _img("_k")}),
        1: Loop(head="for col in range(self.maze.grid_shape[1])", havoc=dict(img=T.GridT("float", [None, None])),
                inv={"shape": f"img.shape == ({_H}, {_W})", "row-part": _img(None, "row", "_k")}),
    }
    result = T.GridT("float", [None, None])
    props = ["C20"]


PATHFMT = T.RecT("PathFormat", path=T.GridT("int", [None, 2]), quiver_kwargs=T.Const(None), cmap=T.Const(None), fmt=T.ObjT("fmt"), line_width=T.ObjT("lw"),
                 color=T.ObjT("color"), label=T.ObjT("label"))
_PN = "path_format.path.shape[0]"


@contract(PM, "MazePlot._plot_path")
class plot_path:
    """C20: `paths are drawn through the centres of exactly the cells they list, in order, with rows mapped to the vertical and columns to the horizontal
    axis`: the line handed to Axes.plot has one point per listed cell, in the listed order, x from the column and y from the row (centre of the unit
    square), and the two endpoint markers sit on the first and the last listed cell.  (The non-quiver branch; Axes.plot itself is matplotlib.)"""
    params = dict(self=T.RecT("MazePlot", unit_length=T.Nat, ax=T.ObjT("ax")), path_format=PATHFMT)
    requires = [f"{_PN} >= 1"]
    ext_events = ("plot",)
    ensures = {
        "C20.path.calls": "n_calls('plot') == 3",
        "C20.path.line.len": f"call_arg('plot', 0, 0).shape == ({_PN},) and call_arg('plot', 0, 1).shape == ({_PN},)",
        "C20.path.line.x-from-column": f"forall(lambda k: call_arg('plot', 0, 0)[k] == self.unit_length * (path_format.path[k, 1] + 0.5), (0, {_PN}))",
        "C20.path.line.y-from-row": f"forall(lambda k: call_arg('plot', 0, 1)[k] == self.unit_length * (path_format.path[k, 0] + 0.5), (0, {_PN}))",
        "C20.path.start-marker": "call_arg('plot', 1, 0)[0] == self.unit_length * (path_format.path[0, 1] + 0.5) and call_arg('plot', 1, 1)[0] == self.unit_length * (path_format.path[0, 0] + 0.5)",
        "C20.path.end-marker": f"call_arg('plot', 2, 0)[0] == self.unit_length * (path_format.path[{_PN} - 1, 1] + 0.5) and call_arg('plot', 2, 1)[0] == self.unit_length * (path_format.path[{_PN} - 1, 0] + 0.5)",
    }
    options = dict(no_concrete=True)
    props = ["C20"]
