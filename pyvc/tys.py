"""Type descriptors used by contracts to create symbolic inputs / havocked loop variables."""
from __future__ import annotations

import z3

from .values import (
    Arr,
    CDict,
    CSet,
    Grid,
    Rec,
    SymList,
    fresh_name,
    sort_for_kind,
)


class Type:
    def __repr__(self):
        return getattr(self, "cls", None) or type(self).__name__

    def fresh(self, name):
        """-> (value, list of well-formedness assumptions)"""
        raise NotImplementedError

    def alternatives(self):
        return [self]


class _Scalar(Type):
    def __init__(self, kind, lo=None, hi=None):
        self.kind = kind
        self.lo, self.hi = lo, hi

    def fresh(self, name):
        v = z3.Const(fresh_name(name), sort_for_kind(self.kind))
        wf = []
        if self.lo is not None:
            wf.append(v >= self.lo)
        if self.hi is not None:
            wf.append(v <= self.hi)
        return v, wf

    def __repr__(self):
        return f"T.{self.kind}"


Int = _Scalar("int")
Nat = _Scalar("int", lo=0)
Bool = _Scalar("bool")
Real = _Scalar("float")


def IntRange(lo, hi):
    return _Scalar("int", lo, hi)


class NoneT(Type):
    def fresh(self, name):
        return None, []

    def __repr__(self):
        return "None"


class Const(Type):
    def __init__(self, v):
        self.v = v

    def fresh(self, name):
        return self.v, []

    def __repr__(self):
        return f"Const({self.v!r})"


class ArrT(Type):
    def __repr__(self):
        return f"{self.kind}array{list(self.shape)}"

    def __init__(self, shape, kind="int", lo=None, hi=None):
        self.shape = tuple(shape)
        self.kind = kind
        self.lo, self.hi = lo, hi

    def fresh(self, name):
        n = 1
        for d in self.shape:
            n *= d
        flat = [z3.Const(fresh_name(f"{name}_{k}"), sort_for_kind(self.kind)) for k in range(n)]
        wf = []
        for x in flat:
            if self.lo is not None:
                wf.append(x >= self.lo)
            if self.hi is not None:
                wf.append(x <= self.hi)
        return Arr(self.shape, flat, self.kind), wf


Coord = ArrT((2,), "int")


class TupleT(Type):
    def __init__(self, *elems):
        self.elems = elems

    def fresh(self, name):
        vals, wf = [], []
        for k, t in enumerate(self.elems):
            v, w = t.fresh(f"{name}_{k}")
            vals.append(v)
            wf += w
        return tuple(vals), wf


CoordTup = TupleT(Int, Int)


class GridT(Type):
    """dims: list of None (fresh symbolic, >=0), python ints, or z3 terms"""

    def __init__(self, kind, dims, count=False, dtype=None, min_dim=0):
        self.kind = kind
        self.dims = dims
        self.count = count
        self.dtype = dtype
        self.min_dim = min_dim

    def fresh(self, name):
        dims, wf = [], []
        for k, d in enumerate(self.dims):
            if d is None:
                d = z3.Int(fresh_name(f"{name}_d{k}"))
                wf.append(d >= self.min_dim)
            dims.append(d)
        g = Grid.fresh(name, dims, self.kind, with_count=self.count, dtype=self.dtype)
        if self.count:
            wf.append(g.count >= 0)
        return g, wf


def _no_shared_callables(v, name):
    """an unknown callable inside the element template of a symbolic list would be ONE callable shared by all elements (a no-argument method would
    return the same value for every element): refuse the type instead of proving things about it (use opaque elements, whose methods are functions
    of the receiver)"""
    from .interp import UFunc, UPred
    from .values import Rec

    if isinstance(v, (UFunc, UPred)):
        raise TypeError(f"{name}: FuncT / PredT inside the element type of a ListT is not supported (it would be shared by all elements)")
    if isinstance(v, Rec):
        for f in v.fields.values():
            _no_shared_callables(f, name)
    elif isinstance(v, (tuple, list)):
        for f in v:
            _no_shared_callables(f, name)
    elif isinstance(v, dict):
        for f in v.values():
            _no_shared_callables(f, name)


class ListT(Type):
    def __init__(self, elem: Type):
        self.elem = elem

    def fresh(self, name):
        from .values import leaves_of

        tmpl, twf = self.elem.fresh(name + "_tmpl")
        _no_shared_callables(tmpl, name)
        lst = SymList.fresh(name, tmpl)
        wf = [lst.length >= 0]
        if twf:
            # well-formedness of the element type holds for every element: substitute the template leaves by selections
            k = z3.Int(fresh_name("k"))
            pairs = []
            for leaf, arr in zip(leaves_of(tmpl), lst.arrs):
                if z3.is_expr(leaf) and arr is not None and not isinstance(arr, (str, bool, int, float)):
                    pairs.append((leaf, z3.Select(arr, k)))
            for f in twf:
                wf.append(z3.ForAll([k], z3.substitute(z3.And(f) if not z3.is_expr(f) else f, *pairs)))
        return lst, wf


class SetT(Type):
    def __init__(self, arity=2):
        self.arity = arity

    def fresh(self, name):
        s = CSet.fresh(name, self.arity)
        ks = [z3.Int(fresh_name("m")) for _ in range(self.arity)]
        # representation invariant of a finite set with exact ghost cardinality
        return s, [s.card >= 0, (s.card == 0) == z3.ForAll(ks, z3.Not(s.contains(ks)))]


class DictT(Type):
    def __init__(self, arity, val: Type):
        self.arity = arity
        self.val = val

    def fresh(self, name):
        tmpl, _ = self.val.fresh(name + "_tmpl")
        d = CDict.fresh(name, self.arity, tmpl)
        return d, [d.dom.card >= 0]


class RecT(Type):
    def __init__(self, cls, **fields):
        self.cls = cls
        self.fields = fields

    def alternatives(self):
        """a record with fields that have alternatives is verified once per combination"""
        import itertools

        names = list(self.fields)
        alts = [self.fields[n].alternatives() for n in names]
        if all(len(a) == 1 and a[0] is self.fields[n] for a, n in zip(alts, names)):
            return [self]
        return [RecT(self.cls, **dict(zip(names, combo))) for combo in itertools.product(*alts)]

    def fresh(self, name):
        vals, wf = {}, []
        for k, t in self.fields.items():
            v, w = t.fresh(f"{name}.{k}")
            vals[k] = v
            wf += w
        return Rec(self.cls, vals), wf


class OneOf(Type):
    """the function is verified once per alternative"""

    def __init__(self, *alts):
        self.alts = alts

    def alternatives(self):
        out = []
        for a in self.alts:
            out.extend(a.alternatives())
        return out

    def fresh(self, name):
        raise RuntimeError("OneOf must be expanded by the driver")


def Maze(cls="LatticeMaze", count=False, lattice_dim=2, **extra):
    """a maze object: connection_list is a bool grid (2, R, C) with R, C >= 0 symbolic.
    (The leading dimension is the constant 2: `ConnectionList = Bool[np.ndarray, "lattice_dim=2 row col"]`.)"""
    return RecT(cls, connection_list=GridT("bool", [lattice_dim, None, None], count=count), **extra)


class GuardedRowsT(Type):
    """result of np.array([... filtered comprehension over n candidates ...]): at most n rows of `width` ints"""

    def __init__(self, n, width=2):
        self.n = n
        self.width = width

    def fresh(self, name):
        from .values import GList
        from . import npmodel as M

        items = []
        for k in range(self.n):
            g = z3.Bool(fresh_name(f"{name}_g{k}"))
            v = Arr((self.width,), [z3.Int(fresh_name(f"{name}_v{k}_{c}")) for c in range(self.width)], "int")
            items.append((g, v))
        return M.Rows(GList(items), self.width), []


class PyDictT(Type):
    """python dict with constant string keys and typed values (e.g. generation_meta)"""

    def __init__(self, **fields):
        self.fields = fields

    def fresh(self, name):
        out, wf = {}, []
        for k, t in self.fields.items():
            v, w = t.fresh(f"{name}[{k}]")
            out[k] = v
            wf += w
        return out, wf


def idiv(x, k):
    """floor division by a positive constant for python ints and z3 ints alike (for result-shape lambdas)"""
    return x // k if isinstance(x, int) else x / k


class LazyClass:
    """a repository class named by (file, name); resolved by the executor when called"""

    def __init__(self, file, name):
        self.file, self.name = file, name

    def leaves(self):
        return []

    def rebuild(self, leaves):
        return self

    def sig(self):
        return ("LazyClass", self.name)


class ClassT(Type):
    def __init__(self, file, name):
        self.file, self.name = file, name

    def fresh(self, name):
        return LazyClass(self.file, self.name), []

    def __repr__(self):
        return f"class {self.name}"


class FiltT(Type):
    """an order-preserving filtered view of the source sequence `src` (a symbolic value): fresh = arbitrary keep predicate.
    elem: type of one element, for lifting concrete results (python list / ndarray rows)"""

    def __init__(self, src, elem=None, as_array=False):
        self.src = src
        self.elem = elem
        self.as_array = as_array

    def fresh(self, name):
        from .filt import FiltList, RangeSrc
        from .values import is_sym

        src = self.src
        if isinstance(src, int) or (is_sym(src) and src.sort() == z3.IntSort()):
            src = RangeSrc(src)
        fl = FiltList.fresh(name, src)
        fl.as_array = self.as_array
        return fl, []


class ObjT(Type):
    """an object we never look into (an args tuple, a kwargs dict, ...): a constant of the uninterpreted sort Obj"""

    def __init__(self, what="obj"):
        self.what = what

    def fresh(self, name):
        from .interp import OBJ_SORT

        return z3.Const(fresh_name(name), OBJ_SORT), []


class StrT(Type):
    def fresh(self, name):
        return z3.String(fresh_name(name)), []


Str = StrT()


class PredT(Type):
    """an unknown pure callable returning bool (a filter predicate)"""

    def __init__(self, result_kind="bool"):
        self.result_kind = result_kind

    def fresh(self, name):
        from .interp import UPred

        return UPred(name, self.result_kind), []


class FuncT(Type):
    """an unknown pure callable returning a value of type `result`"""

    def __init__(self, result):
        self.result = result

    def fresh(self, name):
        from .interp import UFunc

        return UFunc(name, self.result), []


class StrDictT(Type):
    """dict[str, int] of unknown content (a vocabulary's token -> id map)"""

    def fresh(self, name):
        from .values import SDict

        return SDict.fresh(name), []
