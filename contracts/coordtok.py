"""Sidecar contracts for the coordinate tokenizers (C06: `origin and target regions give the start and end cells`; coordinates in every region)."""
from pyvc.contracts import contract, REGISTRY
from pyvc import tys as T

MT = "maze_dataset/tokenization/maze_tokenizer.py"
REGISTRY.inlinable.update({("maze_dataset/utils.py", "empty_sequence_if_attr_false")})
FLAG = T.OneOf(T.Const(True), T.Const(False))


@contract(MT, "CoordTokenizers.UT.to_tokens")
class ut_to_tokens:
    """one token per cell, the text `(row,col)` with both numbers in decimal - row first"""
    params = dict(self=T.RecT("UT"), coord=T.Coord)
    requires = ["coord[0] >= 0", "coord[1] >= 0"]
    ensures = {"C06.coord.UT": "len(result) == 1 and result[0] == '(' + str(coord[0]) + ',' + str(coord[1]) + ')'"}
    props = ["C06"]


@contract(MT, "CoordTokenizers.CTT.to_tokens")
class ctt_to_tokens:
    """the row number, then the column number, each as its own decimal token, with the three delimiters present exactly as the parameters say"""
    params = dict(self=T.RecT("CTT", pre=FLAG, intra=FLAG, post=FLAG), coord=T.Coord)
    requires = ["coord[0] >= 0", "coord[1] >= 0"]
    lets = dict(p="1 if self.pre else 0", i="1 if self.intra else 0", q="1 if self.post else 0")
    ensures = {
        "C06.coord.CTT.len": "len(result) == 2 + p + i + q",
        "C06.coord.CTT.numbers": "result[p] == str(coord[0]) and result[p + 1 + i] == str(coord[1])",
        "C06.coord.CTT.delimiters": "((result[0] == VOCAB.COORD_PRE) if self.pre else True) and ((result[p + 1] == VOCAB.COORD_INTRA) if self.intra else True) and ((result[p + i + 2] == VOCAB.COORD_POST) if self.post else True)",
    }
    props = ["C06"]
