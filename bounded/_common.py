"""Small helpers shared by the bounded stand-ins C11/C15/C16/C20 (harness code only; nothing from the repository)."""
from __future__ import annotations

import multiprocessing
import os
import traceback

import numpy as np


class Capped:
    """forwards to a BoundedResult but keeps at most `per_key` failures per key, so that one noisy key cannot fill
    the 50-entry failure list of BoundedResult and hide the other keys"""

    def __init__(self, res, per_key=3):
        self._res, self._n, self._per_key = res, {}, per_key

    def __getattr__(self, name):
        return getattr(self._res, name)

    def fail(self, key, what, input=None, observed=None):
        self._n[key] = self._n.get(key, 0) + 1
        if self._n[key] <= self._per_key:
            self._res.fail(key, what, input, observed)


class Recorder:
    """stand-in for a BoundedResult inside a worker process: records seen()/fail()/errors as plain data"""

    def __init__(self):
        self.seen_list, self.failures, self.errors = [], [], []

    def seen(self, canonical, nontrivial=True, sample=None):
        self.seen_list.append((repr(canonical), bool(nontrivial), sample if len(self.seen_list) < 3 else None))

    def fail(self, key, what, input=None, observed=None):
        if len(self.failures) < 200:
            self.failures.append((key, what, input, observed))

    def dump(self):
        return (self.seen_list, self.failures, self.errors)


def merge(res, dumped):
    """replay a Recorder.dump() into a (Capped) BoundedResult"""
    seen_list, failures, errors = dumped
    for canon, nontrivial, sample in seen_list:
        res.seen(canon, nontrivial=nontrivial, sample=sample)
    for key, what, inp, obs in failures:
        res.fail(key, what, inp, obs)
    res.errors.extend(errors)


_WORK = {}


def _call(args):
    fn_name, item = args
    rec = Recorder()
    # the library reseeds maze generation with `seed + process id` whenever it runs inside a multiprocessing child
    # (maze_dataset._maze_gen_init_worker looks at current_process()._identity).  The stand-ins compare against a
    # generation done in the parent, so the pool workers present themselves as a main process.
    multiprocessing.current_process()._identity = ()
    try:
        _WORK[fn_name](rec, item)
    except Exception as e:  # noqa: BLE001  harness crash inside a worker
        rec.errors.append(f"{type(e).__name__}: {e}\n{traceback.format_exc(limit=8)}")
    return rec.dump()


def pmap(res, fn, items, procs=None, chunksize=1):
    """run fn(recorder, item) for every item in a fork pool and merge what was recorded into `res` (in item order)"""
    items = list(items)
    if not items:
        return
    procs = min(procs or (os.cpu_count() or 4), len(items))
    _WORK[fn.__name__] = fn
    if procs <= 1:
        for it in items:
            merge(res, _call((fn.__name__, it)))
        return
    ctx = multiprocessing.get_context("fork")
    with ctx.Pool(procs) as pool:
        for dumped in pool.imap(_call, [(fn.__name__, it) for it in items], chunksize=chunksize):
            merge(res, dumped)


def as_int_list(a):
    return np.asarray(a).astype(int).tolist()
