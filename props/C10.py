"""C10 - pixel and ASCII renderings are faithful and invertible."""
ID = "C10"
LEVEL = "exploration"
LEVEL_TEXT = 'Bounded: image geometry, border, cell/edge pixels, endpoint and path colours, the ASCII text, and both read-back directions for all connection structures up to 2x3/3x2 (sampled or all 4096 on 3x3), all three kinds, all start != end pairs with all their shortest paths and all accepted flag combinations.'
LEVEL_NOTE = 'Trusted: numpy.'
TECHNIQUE = "bounded stand-in of the contract-based verifier: run-time checking of the real code against an independent executable statement over an enumerated scope (no function of this property is in the verified subset yet)"
CONTRACT_MODULES = []
PROVE = []
ASSUMPTIONS = []
EXPLANATION = "see DESIGN.md C10"


def run(run):
    from props._std import run_bounded

    if PROVE:
        run.prove(PROVE)
    run_bounded(run, "C10")
