"""Small-scope input generation from contract parameter types (used to look for a concrete failing
input when a solver model does not replay, and by the prover/CPython consistency check)."""
from __future__ import annotations

import random
import time

import numpy as np

from pyvc import tys as T
from pyvc import rtcheck


def gen_value(ty, rng, scope):
    if isinstance(ty, T.OneOf):
        return gen_value(rng.choice(ty.alternatives()), rng, scope)
    if isinstance(ty, T.NoneT):
        return None
    if isinstance(ty, T.Const):
        return ty.v
    if isinstance(ty, T._Scalar):
        if ty.kind == "bool":
            return rng.random() < 0.5
        if ty.kind == "float":
            return rng.choice([0.0, 0.25, 0.5, 0.75, 1.0, rng.random()])
        lo = ty.lo if ty.lo is not None else -2
        hi = ty.hi if ty.hi is not None else scope["max_int"]
        return rng.randint(lo, max(lo, hi))
    if isinstance(ty, T.ArrT):
        n = int(np.prod(ty.shape)) if ty.shape else 1
        if ty.kind == "bool":
            vals = [rng.random() < 0.5 for _ in range(n)]
            return np.array(vals, dtype=np.bool_).reshape(ty.shape)
        lo = ty.lo if ty.lo is not None else -1
        hi = ty.hi if ty.hi is not None else scope["max_coord"]
        return np.array([rng.randint(lo, hi) for _ in range(n)], dtype=np.int64).reshape(ty.shape)
    if isinstance(ty, T.TupleT):
        return tuple(gen_value(t, rng, scope) for t in ty.elems)
    if isinstance(ty, T.GridT):
        dims = []
        for k, d in enumerate(ty.dims):
            if isinstance(d, int):
                dims.append(d)
            else:
                dims.append(rng.randint(max(ty.min_dim, 0), scope["max_dim"]))
        if ty.kind == "bool":
            p = rng.choice([0.2, 0.5, 0.8])
            return np.array(np.random.RandomState(rng.randint(0, 2**31)).rand(*dims) < p, dtype=np.bool_)
        if ty.kind == "int":
            return np.random.RandomState(rng.randint(0, 2**31)).randint(-1, scope["max_coord"] + 1, size=dims).astype(np.int64)
        return np.random.RandomState(rng.randint(0, 2**31)).rand(*dims)
    if isinstance(ty, T.RecT):
        d = {"__cls__": ty.cls}
        for k, t in ty.fields.items():
            if k == "connection_list" and isinstance(t, T.GridT):
                R, C = rng.randint(1, scope["max_dim"]), rng.randint(1, scope["max_dim"])
                p = rng.choice([0.2, 0.5, 0.8])
                a = np.random.RandomState(rng.randint(0, 2**31)).rand(2, R, C) < p
                if rng.random() < 0.8:
                    a[0, -1, :] = False
                    a[1, :, -1] = False
                d[k] = a
            else:
                d[k] = gen_value(t, rng, scope)
        return d
    if isinstance(ty, T.ListT):
        return [gen_value(ty.elem, rng, scope) for _ in range(rng.randint(0, scope["max_len"]))]
    if isinstance(ty, T.ClassT):
        return f"<class {ty.name}>"
    raise NotImplementedError(f"generator for {type(ty).__name__}")


def search_failing_input(contract, repo, seconds=40.0, seed=0, scope=None):
    """random small inputs satisfying the precondition; returns the first one on which the real function breaks its contract"""
    rng = random.Random(seed + 12345)
    scope = scope or dict(max_dim=4, max_coord=4, max_int=6, max_len=5)
    t0 = time.time()
    tried = 0
    custom = contract.options.get("gen")
    while time.time() - t0 < seconds:
        try:
            args = custom(rng) if custom else {n: gen_value(t, rng, scope) for n, t in contract.params.items()}
        except NotImplementedError:
            return None
        try:
            res = rtcheck.check_call(contract, args, repo=repo)
        except Exception:
            continue
        tried += 1
        if res.status == "violated":
            return {"args": args, "result": {"status": res.status, "clause": res.clause, "detail": res.detail, "result": res.result_repr, "exception": res.exception}, "tried": tried}
    return None


def consistency_sample(contract, repo, n=40, seed=0, scope=None, seconds=None):
    """prover/CPython consistency: the contract's concrete reading on the real function over random small inputs.
    -> (evaluated, skipped, violations[list], undecided)"""
    rng = random.Random(seed + 777)
    scope = scope or dict(max_dim=3, max_coord=3, max_int=5, max_len=4)
    custom = contract.options.get("gen")
    evaluated = skipped = undecided = 0
    bad = []
    tries = 0
    t0 = time.time()
    while evaluated < n and tries < n * 12:
        if seconds is not None and time.time() - t0 > seconds:
            break
        tries += 1
        args = custom(rng) if custom else {nm: gen_value(t, rng, scope) for nm, t in contract.params.items()}
        res = rtcheck.check_call(contract, args, repo=repo)
        if res.status == "skipped":
            skipped += 1
            continue
        evaluated += 1
        if res.status == "violated":
            bad.append({"args": args, "clause": res.clause, "result": res.result_repr, "exception": res.exception})
        elif res.status == "undecided":
            undecided += 1
    return evaluated, skipped, bad, undecided
