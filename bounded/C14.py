"""Bounded stand-in for C14: token vocabularies and token-id codecs are fixed, duplicate-free, invertible.

The quantifier of C14 is finite (4096 vocabulary positions, 3 legacy modes x 50 grid sizes, all pairs of sizes
n < m <= 50), so every fact is evaluated over the WHOLE domain (`exhaustive=True`); labelled bounded, never counted
as proved.  The oracle is an independent re-statement of the published layout (this file never imports
`constants._VOCAB_FIELDS` and does not sort with the library's key)."""
from __future__ import annotations

import re
import time
import traceback
import warnings

import numpy as np

from vlib.runner import BoundedResult

NMAX = 50  # the vocabulary's coordinate range
MODES = ("AOTP_UT_rasterized", "AOTP_UT_uniform", "AOTP_CTT_indexed")
K_NEG_MOD = "C14:decode:negative-id:modular"
K_NEG_LEG = "C14:decode:negative-id:legacy"

# ------------------------------------------------------------------ independent statement of the published layout
SPECIALS = ["<ADJLIST_START>", "<ADJLIST_END>", "<TARGET_START>", "<TARGET_END>", "<ORIGIN_START>", "<ORIGIN_END>",
            "<PATH_START>", "<PATH_END>", "<-->", ";", "<PADDING>"]


def my_corner_first(n):
    """corner-first order of all (x,y), 0 <= x,y < n, built shell by shell (shell m = pairs with max(x,y) == m) with no sort.
    Inside shell m the order is the one of the released vocabulary, which the docstring examples of
    `corner_first_ndindex` (n <= 3) show for m <= 2:
      m even:  (i,m) for even i < m ascending; then for t = 0..m-1: (t,m) if t is odd, then (m,t);   finally (m,m)
      m odd :  for t = 0..m-1: (t,m) if t is even, then (m,t);   then (i,m) for odd i < m ascending; finally (m,m)"""
    out = []
    for m in range(n):
        if m % 2 == 0:
            out += [(i, m) for i in range(0, m, 2)]
            for t in range(m):
                if t % 2 == 1:
                    out.append((t, m))
                out.append((m, t))
        else:
            for t in range(m):
                if t % 2 == 0:
                    out.append((t, m))
                out.append((m, t))
            out += [(i, m) for i in range(1, m, 2)]
        out.append((m, m))
    return out


DOC_EXAMPLES = {
    1: [(0, 0)],
    2: [(0, 0), (0, 1), (1, 0), (1, 1)],
    3: [(0, 0), (0, 1), (1, 0), (1, 1), (0, 2), (2, 0), (1, 2), (2, 1), (2, 2)],
}


def expected_vocab():
    """the published layout, block by block -> list of (block name, tokens)"""
    return [
        ("special tokens", list(SPECIALS)),
        ("coordinate/target/path delimiters", ["(", ",", ")", "=", "||", ":", "THEN", "-", "<UNK>"]),
        ("TARGET_A..TARGET_Z", ["TARGET_" + a for a in "ABCDEFGHIJKLMNOPQRSTUVWXYZ"]),
        ("TARGET_<direction>", ["TARGET_" + d for d in ("NORTH", "SOUTH", "EAST", "WEST", "NORTHEAST", "NORTHWEST", "SOUTHEAST", "SOUTHWEST", "CENTER")]),
        ("cardinal path tokens", ["NORTH", "SOUTH", "EAST", "WEST"]),
        ("relative path tokens", ["FORWARD", "BACKWARD", "LEFT", "RIGHT", "STAY"]),
        ("+0..+255", ["+%d" % i for i in range(256)]),
        ("0..127", ["%d" % i for i in range(128)]),
        ("-256..-1", ["%d" % i for i in range(-256, 0)]),
        ("STEP ADJ_GROUP & <XX>", ["STEP", "ADJ_GROUP", "&", "<XX>"]),
        ("<RESERVE_708>..<RESERVE_1595>", ["<RESERVE_%d>" % i for i in range(708, 1596)]),
        ("(x,y) corner-first 50x50", ["(%d,%d)" % xy for xy in my_corner_first(NMAX)]),
    ]


PER_KEY = 2  # reports kept per stable key (BoundedResult keeps 50 in all; one known key must not crowd out the others)


def _fail(res, key, what, inp, observed=None):
    cnt = res.__dict__.setdefault("_per_key", {})
    cnt[key] = cnt.get(key, 0) + 1
    if cnt[key] <= PER_KEY:
        res.fail(key, what, {**inp, "key": key}, observed)


def _short(x, n=12):
    x = list(x)
    return x if len(x) <= n else x[:n] + ["... (%d)" % len(x)]


# ------------------------------------------------------------------ (1) the static vocabulary
def check_layout(res):
    from maze_dataset.constants import SPECIAL_TOKENS, VOCAB, VOCAB_LIST, VOCAB_TOKEN_TO_INDEX

    inp = {"case": "layout"}
    blocks = expected_vocab()
    want = [t for _, toks in blocks for t in toks]
    assert len(want) == 4096 and len(set(want)) == 4096, "harness: the restated layout is not 4096 distinct tokens"
    got = list(VOCAB_LIST)
    if len(got) != 4096:
        _fail(res, "C14:vocab:size", f"len(VOCAB_LIST) == {len(got)}, published size 4096", inp, len(got))
    if len(set(got)) != len(got):
        seen, dup = set(), []
        for i, t in enumerate(got):
            if t in seen:
                dup.append((i, t))
            seen.add(t)
        _fail(res, "C14:vocab:distinct", f"VOCAB_LIST has {len(dup)} repeated tokens, first {dup[:3]}", inp, dup[:10])
    if list(SPECIAL_TOKENS.values()) != SPECIALS:
        _fail(res, "C14:vocab:special-tokens", "SPECIAL_TOKENS are not the 11 published special tokens in declaration order", inp, list(SPECIAL_TOKENS.values()))
    if list(VOCAB.values()) != got:
        _fail(res, "C14:vocab:layout", "list(VOCAB.values()) differs from VOCAB_LIST", inp, None)
    pos = 0
    for name, toks in blocks:
        for k, t in enumerate(toks):
            i = pos + k
            res.seen(("vocab-position", i), nontrivial=True, sample={"position": i, "block": name, "token": t} if i in (0, 707, 1596) else None)
            g = got[i] if i < len(got) else None
            if g != t:
                _fail(res, "C14:vocab:layout", f"position {i} (block '{name}', offset {k}) holds {g!r}, published layout says {t!r}", {**inp, "position": i}, g)
                break  # one report per block
            if not isinstance(g, str) or g == "" or g.split() != [g]:
                _fail(res, "C14:vocab:whitespace", f"token {g!r} at {i} is empty or contains whitespace (cannot survive the space-joined form)", {**inp, "position": i}, g)
        pos += len(toks)
    # token -> id map is the inverse of the list (all positions)
    if len(VOCAB_TOKEN_TO_INDEX) != len(got):
        _fail(res, "C14:vocab:index-map", f"VOCAB_TOKEN_TO_INDEX has {len(VOCAB_TOKEN_TO_INDEX)} keys for {len(got)} tokens", inp, len(VOCAB_TOKEN_TO_INDEX))
    for i, t in enumerate(got):
        if VOCAB_TOKEN_TO_INDEX.get(t) != i:
            _fail(res, "C14:vocab:index-map", f"VOCAB_TOKEN_TO_INDEX[VOCAB_LIST[{i}]] == {VOCAB_TOKEN_TO_INDEX.get(t)}", {**inp, "position": i}, VOCAB_TOKEN_TO_INDEX.get(t))
            break


# ------------------------------------------------------------------ (2) corner-first ordering
_CF_CACHE = {}


def _cf(n):
    from maze_dataset.utils import corner_first_ndindex

    if n not in _CF_CACHE:
        _CF_CACHE[n] = [tuple(int(v) for v in x) for x in corner_first_ndindex(n)]
    return _CF_CACHE[n]


def check_corner_first_n(res, n):
    inp = {"case": "corner_first", "n": n}
    got = _cf(n)
    res.seen(("corner_first", n), nontrivial=n > 1, sample={"n": n, "first": got[:5]} if n == 4 else None)
    allp = [(x, y) for x in range(n) for y in range(n)]
    if len(got) != n * n or sorted(got) != allp:
        _fail(res, "C14:corner_first:permutation", f"corner_first_ndindex({n}) is not a permutation of all {n*n} index pairs", inp, _short(got))
    want = my_corner_first(n)
    if got != want:
        k = next((i for i, (a, b) in enumerate(zip(got, want)) if a != b), min(len(got), len(want)))
        _fail(res, "C14:corner_first:order", f"corner_first_ndindex({n}) departs from the published corner-first order at position {k}: "
              f"{got[k] if k < len(got) else None} vs {want[k] if k < len(want) else None}", inp, _short(got[k:]))
    if n in DOC_EXAMPLES and got != DOC_EXAMPLES[n]:
        _fail(res, "C14:corner_first:doc-example", f"corner_first_ndindex({n}) differs from its docstring example", inp, got)
    # the max index never decreases (sorted by distance from the corner)
    mx = [max(p) for p in got]
    if any(mx[i] > mx[i + 1] for i in range(len(mx) - 1)):
        _fail(res, "C14:corner_first:order", f"corner_first_ndindex({n}) is not ordered by max(x,y)", inp, _short(got))


def check_corner_first_pair(res, n, m):
    res.seen(("corner_first_prefix", n, m), nontrivial=True)
    a, b = _cf(n), _cf(m)
    if b[: len(a)] != a:
        _fail(res, "C14:corner_first:prefix", f"corner_first_ndindex({n}) is not a prefix of corner_first_ndindex({m})", {"case": "corner_first", "n": n, "m": m}, None)


# ------------------------------------------------------------------ (3) codecs
UNKNOWN_TOKENS = ["<NOT_A_TOKEN>", "(50,0)", "(0,50)", "(50,50)", "(-1,0)", "128", "+256", "-257", "<RESERVE_707>", "<RESERVE_1596>",
                  "north", "TARGET_a", "( 0,0)", "<adjlist_start>", "", " ", "(0,0) "]


def _expect_token_error(fn):
    """-> (raised TokenError?, description of what happened instead)"""
    from maze_dataset.tokenization.maze_tokenizer import TokenError

    try:
        out = fn()
    except TokenError:
        return True, None
    except Exception as e:  # noqa: BLE001
        return False, f"raised {type(e).__name__}: {e}"[:200]
    return False, f"returned {out!r}"[:200]


def check_codec(res, enc, dec, arr, tmap, vocab_size, inp, label, neg_key, rng_seed, ref_arr=None):
    """encode/decode of one tokenizer against its own token list `arr` (every token; whole list; random sequences; error cases)"""
    n = len(arr)
    if len(set(arr)) != n:
        _fail(res, "C14:%s:distinct" % label, f"token_arr has {n - len(set(arr))} repeated tokens", inp, None)
    if vocab_size != n:
        _fail(res, "C14:%s:vocab_size" % label, f"vocab_size == {vocab_size} but len(token_arr) == {n}", inp, vocab_size)
    if len(tmap) != n:
        _fail(res, "C14:%s:index-map" % label, f"tokenizer_map has {len(tmap)} keys for {n} tokens", inp, len(tmap))
    bad_map = bad_codec = None
    for i, t in enumerate(arr):
        if tmap.get(t) != i and bad_map is None:
            bad_map = (i, t, tmap.get(t))
        if bad_codec is None:
            try:
                e1, e2, d1, d2 = enc([t]), enc(t), dec([i]), dec([i], joined_tokens=True)
                if e1 != [i] or e2 != [i] or d1 != [t] or d2 != t:
                    bad_codec = (i, t, f"encode([t])={e1} encode(t)={e2} decode([i])={d1} decode([i],joined)={d2!r}")
            except Exception as e:  # noqa: BLE001
                bad_codec = (i, t, f"{type(e).__name__}: {e}"[:200])
    if bad_map:
        _fail(res, "C14:%s:index-map" % label, f"tokenizer_map[token_arr[{bad_map[0]}]] == {bad_map[2]}", {**inp, "position": bad_map[0]}, bad_map[2])
    if bad_codec:
        _fail(res, "C14:encode-decode", f"{label}: token {bad_codec[1]!r} at id {bad_codec[0]}: {bad_codec[2]}", {**inp, "position": bad_codec[0]}, bad_codec[2])
    # sequences: whole vocabulary forwards / backwards / joined, the empty sequence, seeded random sequences
    rng = np.random.default_rng(rng_seed)
    seqs = [list(range(n)), list(range(n - 1, -1, -1)), []]
    seqs += [[int(x) for x in rng.integers(0, n, size=int(L))] for L in (1, 2, 3, 7, 50, 333)]
    for ids in seqs:
        try:
            toks = [arr[i] for i in ids]
            joined = " ".join(toks)
            obs = None
            if dec(ids) != toks:
                obs = "decode(ids) != tokens"
            elif dec(ids, joined_tokens=True) != joined:
                obs = "decode(ids, joined_tokens=True) != ' '.join(tokens)"
            elif enc(toks) != ids or enc(joined) != ids:
                obs = "encode(tokens) != ids (list or joined string)"
            elif enc(dec(ids)) != ids or dec(enc(toks)) != toks or enc(dec(ids, joined_tokens=True)) != ids:
                obs = "encode/decode are not mutual inverses"
            elif dec(np.array(ids, dtype=np.int64)) != toks:
                obs = "decode(np.array(ids)) != tokens"
        except Exception as e:  # noqa: BLE001
            obs = f"{type(e).__name__}: {e}"[:200]
        if obs:
            _fail(res, "C14:encode-decode", f"{label}: sequence of {len(ids)} ids: {obs}", {**inp, "ids": ids[:400]}, obs)
            break
    # unknown tokens
    vocab = set(arr)
    some = [arr[i] for i in (0, n // 2, n - 1)]
    for u in UNKNOWN_TOKENS + ([ref_arr[-1]] if ref_arr is not None and ref_arr[-1] not in vocab else []):
        if u in vocab:
            continue
        for seq in ([u], some + [u], [u] + some):
            ok, why = _expect_token_error(lambda seq=seq: enc(seq))
            if not ok:
                _fail(res, "C14:encode:unknown-token", f"{label}: encode({seq}) with the unknown token {u!r} {why}; TokenError expected", {**inp, "tokens": seq}, why)
                break
    # ids outside [0, n)
    for bad in (n, n + 5, -1, -2, -n, -n - 1, -4097, 10**6):
        wraps = -n <= bad < 0
        for seq in ([bad], [0, bad], [bad, n - 1]):
            ok, why = _expect_token_error(lambda seq=seq: dec(seq))
            if not ok:
                key = neg_key if wraps else "C14:decode:out-of-range"
                _fail(res, key, f"{label}: decode({seq}) with the id {bad} outside [0,{n}) {why}; TokenError expected", {**inp, "ids": seq}, why)
                break


def check_modular(res, rng_seed):
    from maze_dataset.constants import VOCAB_LIST, VOCAB_TOKEN_TO_INDEX
    from maze_dataset.tokenization import MazeTokenizerModular, TokenizationMode

    toks = [("class", MazeTokenizerModular)] + [("from_legacy(%s)" % m, MazeTokenizerModular.from_legacy(TokenizationMode[m])) for m in MODES]
    for which, t in toks:
        inp = {"case": "modular", "which": which, "rng": rng_seed}
        if which == "class":
            arr, tmap, vs = VOCAB_LIST, VOCAB_TOKEN_TO_INDEX, len(VOCAB_LIST)
        else:
            arr, tmap, vs = t.token_arr, t.tokenizer_map, t.vocab_size
            if list(arr) != list(VOCAB_LIST):
                _fail(res, "C14:modular:token_arr", f"{which}.token_arr is not VOCAB_LIST", inp, None)
        for i in range(len(arr)):
            res.seen(("modular-codec", which, i), nontrivial=True)
        check_codec(res, t.encode, t.decode, list(arr), tmap, vs, inp, "modular", K_NEG_MOD, rng_seed)


_COORD_RE = re.compile(r"\((\d+),(\d+)\)")


def _legacy(mode, n):
    from maze_dataset.tokenization import MazeTokenizer, TokenizationMode

    return MazeTokenizer(tokenization_mode=TokenizationMode[mode], max_grid_size=n)


_ARR_CACHE = {}


def _legacy_arr(mode, n):
    if (mode, n) not in _ARR_CACHE:
        _ARR_CACHE[(mode, n)] = list(_legacy(mode, n).token_arr)
    return _ARR_CACHE[(mode, n)]


def check_legacy(res, mode, n, rng_seed):
    inp = {"case": "legacy", "mode": mode, "n": n, "rng": rng_seed}
    t = _legacy(mode, n)
    arr = list(t.token_arr)
    res.seen(("legacy", mode, n), nontrivial=True, sample={"mode": mode, "max_grid_size": n, "vocab_size": len(arr)} if n == 3 else None)
    bigger = _legacy_arr(mode, n + 1) if n < NMAX else None
    check_codec(res, t.encode, t.decode, arr, t.tokenizer_map, t.vocab_size, inp, "legacy", K_NEG_LEG, rng_seed, ref_arr=bigger)
    coords = [tuple(int(v) for v in m.groups()) for m in (_COORD_RE.fullmatch(x) for x in arr) if m]
    if mode == "AOTP_UT_rasterized":
        want = [(i, j) for i in range(n) for j in range(n)]
        if coords != want:
            _fail(res, "C14:legacy:rasterized-order", f"rasterized mode, max_grid_size={n}: coordinate tokens are not all {n*n} coordinates in row-major order", inp, _short(coords))
    elif mode == "AOTP_UT_uniform":
        if coords != my_corner_first(n):
            _fail(res, "C14:legacy:uniform-order", f"uniform mode, max_grid_size={n}: coordinate tokens are not all {n*n} coordinates in corner-first order", inp, _short(coords))
    else:
        # every token that spells a coordinate < n in the five-token form is in the vocabulary
        need = {"(", ",", ")"} | {str(i) for i in range(n)}
        if not need <= set(arr):
            _fail(res, "C14:legacy:ctt-tokens", f"indexed mode, max_grid_size={n}: vocabulary lacks {sorted(need - set(arr))[:5]}", inp, None)


def check_legacy_prefix(res, mode, n, m):
    res.seen(("legacy-prefix", mode, n, m), nontrivial=True)
    a, b = _legacy_arr(mode, n), _legacy_arr(mode, m)
    if b[: len(a)] != a:
        k = next((i for i, (x, y) in enumerate(zip(a, b)) if x != y), min(len(a), len(b)))
        _fail(res, "C14:legacy:prefix", f"{mode}: token_arr for grid size {n} is not a prefix of token_arr for grid size {m} (first difference at id {k})",
              {"case": "legacy-prefix", "mode": mode, "n": n, "m": m}, [a[k : k + 3], b[k : k + 3]])


CACHED = ["_node_strings_map", "node_strings_map", "_token_arr", "token_arr", "_tokenizer_map", "tokenizer_map", "_padding_token_index", "padding_token_index"]


def check_legacy_after_clear_cache(res, mode, a, b, touched):
    """multi-step: some cached views of a legacy tokenizer are computed, its grid size is changed, clear_cache() is called - afterwards every
    vocabulary fact must be that of a fresh tokenizer with the new size (the map the inverse of the list, same list, same size)"""
    inp = {"case": "legacy-clear-cache", "mode": mode, "n": a, "m": b, "touched": list(touched)}
    res.seen(("legacy-clear-cache", mode, a, b, tuple(touched)), nontrivial=bool(touched))
    t = _legacy(mode, a)
    for name in touched:
        try:
            getattr(t, name)
        except Exception:  # noqa: BLE001  (a view that does not exist in this mode)
            pass
    try:
        t.max_grid_size = b
        t.clear_cache()
        arr, tmap, vs = list(t.token_arr), dict(t.tokenizer_map), t.vocab_size
    except Exception as e:  # noqa: BLE001
        _fail(res, "C14:legacy:clear-cache", f"{mode}: after max_grid_size {a}->{b} and clear_cache(): {type(e).__name__}: {e}", inp, None)
        return
    want = _legacy_arr(mode, b)
    if arr != want or vs != len(want):
        _fail(res, "C14:legacy:clear-cache", f"{mode}: after max_grid_size {a}->{b} and clear_cache() (computed before: {list(touched)}) token_arr has {len(arr)} entries / vocab_size {vs}, a fresh tokenizer has {len(want)}", inp, len(arr))
    if tmap != {tok: i for i, tok in enumerate(want)}:
        _fail(res, "C14:legacy:clear-cache", f"{mode}: after max_grid_size {a}->{b} and clear_cache() (computed before: {list(touched)}) tokenizer_map ({len(tmap)} entries) is not the inverse of the token list ({len(want)} entries)", inp, len(tmap))


# ------------------------------------------------------------------ driver
def run(tier, seed):
    warnings.simplefilter("ignore")
    t0 = time.time()
    res = BoundedResult(
        "C14.vocab-and-codecs",
        rule="complete over the finite domain of the property: all 4096 positions of VOCAB_LIST against the published layout restated in the harness "
        "(11 special tokens, the fixed blocks, 2500 '(x,y)' tokens in corner-first order built shell by shell without the library's sort key); "
        "corner_first_ndindex(n) for every n in 1..50 (permutation, order) and every pair n<m<=50 (prefix); MazeTokenizerModular encode/decode on every "
        "single token (list and string form), the whole vocabulary forwards/backwards/joined, the empty sequence and seeded random sequences "
        "(the codecs are element-wise, sequences are a sample), 17 unknown token strings and ids len, len+5, -1, -2, -len, -len-1, -4097, 10^6; the same for "
        "every legacy mode x max_grid_size 1..50 plus row-major / corner-first order of the coordinate tokens and the prefix property of the uniform mode "
        "for every pair n<m<=50; multi-step: per legacy mode, cached views computed (none / each single one / ordered pairs / all), max_grid_size changed 3->5 and 5->2, clear_cache(), then all facts "
        "compared with a fresh tokenizer; identical in both tiers; distinct by (fact, position / mode / size / pair)",
        exhaustive=True,
        functions=["corner_first_ndindex", "MazeTokenizer._token_arr", "MazeTokenizer._tokenizer_map", "constants.VOCAB_LIST", "constants.VOCAB_TOKEN_TO_INDEX"],
    )
    steps = [("layout", lambda: check_layout(res))]
    steps += [("corner_first(%d)" % n, (lambda n=n: check_corner_first_n(res, n))) for n in range(1, NMAX + 1)]
    steps += [("corner_first prefix", lambda: [check_corner_first_pair(res, n, m) for n in range(1, NMAX + 1) for m in range(n + 1, NMAX + 1)])]
    steps += [("modular codec", lambda: check_modular(res, seed))]
    steps += [("legacy %s g%d" % (mode, n), (lambda mode=mode, n=n: check_legacy(res, mode, n, seed))) for mode in MODES for n in range(1, NMAX + 1)]
    steps += [("legacy prefix", lambda: [check_legacy_prefix(res, "AOTP_UT_uniform", n, m) for n in range(1, NMAX + 1) for m in range(n + 1, NMAX + 1)])]
    import itertools as _it

    touch_sets = [()] + [(n_,) for n_ in CACHED] + [tuple(c) for c in _it.permutations(["node_strings_map", "token_arr", "tokenizer_map"], 2)] + [tuple(CACHED), tuple(reversed(CACHED))]
    steps += [("legacy clear_cache %s" % mode, (lambda mode=mode: [check_legacy_after_clear_cache(res, mode, a, b, ts) for a, b in ((3, 5), (5, 2)) for ts in touch_sets])) for mode in MODES]
    for name, step in steps:
        try:
            step()
        except Exception as e:  # noqa: BLE001
            res.errors.append(f"{name}: {type(e).__name__}: {e}\n{traceback.format_exc(limit=5)}")
    res.seconds = time.time() - t0
    return [res]


def replay(check, inp):
    """re-run the sub-check a recorded failure came from; True iff the recorded failure key no longer shows up"""
    warnings.simplefilter("ignore")
    res = BoundedResult("replay", "replay")
    case = inp.get("case")
    seed = int(inp.get("rng", 0))
    if case == "layout":
        check_layout(res)
    elif case == "corner_first":
        check_corner_first_n(res, int(inp["n"]))
        if inp.get("m") is not None:
            check_corner_first_n(res, int(inp["m"]))
            check_corner_first_pair(res, int(inp["n"]), int(inp["m"]))
    elif case == "modular":
        check_modular(res, seed)
    elif case == "legacy":
        check_legacy(res, inp["mode"], int(inp["n"]), seed)
    elif case == "legacy-prefix":
        check_legacy_prefix(res, inp["mode"], int(inp["n"]), int(inp["m"]))
    else:
        raise ValueError(f"unknown replay case {case!r}")
    key = inp.get("key")
    bad = [f for f in res.failures if key is None or f["key"] == key]
    for f in bad:
        print("  still failing:", f["key"], f["what"][:300])
    for e in res.errors:
        print("  replay error:", e[:500])
    return not bad and not res.errors
