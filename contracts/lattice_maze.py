"""Sidecar contracts for maze_dataset/maze/lattice_maze.py (graph views: C13, used by C01/C02/C03/C12)."""
from pyvc.contracts import contract, Loop
from pyvc import tys as T

F = "maze_dataset/maze/lattice_maze.py"


@contract(F, "LatticeMaze.heuristic")
class heuristic:
    params = dict(a=T.CoordTup, b=T.CoordTup)
    ensures = {
        "C13.manhattan": "result == abs(a[0] - b[0]) + abs(a[1] - b[1])",
        "C02.H.nonneg": "result >= 0",
    }
    result = T.Int
    props = ["C13", "C02"]


@contract(F, "LatticeMaze.nodes_connected")
class nodes_connected:
    params = dict(self=T.Maze(), a=T.Coord, b=T.Coord)
    # from call sites: both callers check bounds of both cells first
    requires = ["self.connection_list.shape[0] == 2", "in_grid(self, a)", "in_grid(self, b)"]
    ensures = {"C13.edge": "result == edge(self, a, b)"}
    result = T.Bool
    props = ["C13"]


@contract(F, "LatticeMaze.get_coord_neighbors")
class get_coord_neighbors:
    params = dict(self=T.Maze(), c=T.Coord)
    requires = ["self.connection_list.shape[0] == 2", "in_grid(self, c)"]
    result = T.Int  # placeholder, refined below
    props = ["C13"]
