"""C16 - a dataset collection is exactly the concatenation of its member datasets."""
ID = "C16"
LEVEL = "proof"
LEVEL_TEXT = (
    "Unbounded proof for all numbers of members, all member lengths (zeros anywhere) and all valid indices: __len__ is the sum of the member "
    "lengths, the cumulative lengths are its prefix sums, __getitem__(i) returns the very maze at position i of the concatenation (the unique "
    "(member d, offset k) with i = len_0+...+len_{d-1}+k, 0 <= k < len_d), no IndexError, and the flattened maze list is that concatenation. "
    "update_self_config / reported maze count are checked by the bounded stand-in only."
)
LEVEL_NOTE = (
    "Trusted library contracts: itertools.accumulate (running sums), np.searchsorted (local characterisation on a nondecreasing array), "
    "itertools.chain.from_iterable (positional concatenation); lemma psum_monotone (prefix sums of non-negative ints are nondecreasing)."
)
TECHNIQUE = "contract-based deductive verification of the real functions (AST-derived VCs, z3) + exhaustive small-scope run-time check"
CONTRACT_MODULES = ["contracts.collection"]
F = "maze_dataset/dataset/collected_dataset.py"
PROVE = [
    (F, "MazeDatasetCollection.dataset_lengths"),
    (F, "MazeDatasetCollection.__len__"),
    (F, "MazeDatasetCollection.dataset_cum_lengths"),
    (F, "MazeDatasetCollection.__getitem__"),
    (F, "MazeDatasetCollection.mazes"),
]
ASSUMPTIONS = ["a maze is identified by an opaque identity field; member datasets are lists of such mazes"]
EXPLANATION = "see DESIGN.md C16"


def run(run):
    from props._std import run_bounded

    run.prove(PROVE)
    run_bounded(run, "C16")
