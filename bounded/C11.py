"""Bounded stand-in for C11: the on-disk dataset cache never serves wrong data, whatever happened to the file.

Fault enumeration against the real `MazeDataset.from_config` in a temp dir under /var/tmp (removed afterwards):
  (a) generate -> file `<cfg.to_fname()>.zanj` -> second call returns the same mazes as a fresh generation (+ filters);
  (b) missing / empty / truncated-at-offset / single-byte-corrupted cache file: the call must not raise, must return the mazes
      of a fresh generation and must leave a loadable file with those mazes behind;
  (c) a cache file of ANOTHER configuration under the requested name: ValueError, never the other configuration's mazes
      silently; a file differing only in the maze count is accepted; a mismatching dataset is never written under the name;
  (d) a save interrupted at each low-level write (k-th write on the archive's file object raises OSError, nothing or half of
      that write reaching the disk): the next request regenerates correctly and leaves a loadable file.
The oracle is `MazeDataset.generate(cfg)` followed by the configured filters through the public `filter_by` interface,
compared array-by-array (never `==` on mazes).  Bounded, never counted as proved."""
from __future__ import annotations

import base64
import os
import shutil
import tempfile
import time
import traceback
import warnings
import zipfile

import numpy as np

from vlib.runner import BoundedResult

from bounded._common import Capped, pmap

# ----------------------------------------------------------------------------- configurations (plain data)
SPECS = [
    dict(name="c11a", grid_n=3, n_mazes=3, ctor="gen_dfs", ctor_kwargs={}, filters=[], seed=42),
    dict(name="c11b", grid_n=4, n_mazes=4, ctor="gen_wilson", ctor_kwargs={}, filters=[], seed=42),
    dict(name="c11c", grid_n=3, n_mazes=5, ctor="gen_percolation", ctor_kwargs={"p": 0.5}, filters=[], seed=42),
    dict(name="c11d", grid_n=4, n_mazes=5, ctor="gen_dfs", ctor_kwargs={"do_forks": False}, filters=[["path_length", [], {"min_length": 6}]], seed=42),
    dict(name="c11e", grid_n=3, n_mazes=5, ctor="gen_dfs_percolation", ctor_kwargs={"p": 0.3}, filters=[["path_length", [], {"min_length": 3}], ["start_end_distance", [], {"min_distance": 2}]], seed=42),
    dict(name="c11f", grid_n=4, n_mazes=3, ctor="gen_prim", ctor_kwargs={}, filters=[], seed=42),
    # 100 mazes: the library switches to its compact format (maze arrays as separate binary members of the archive)
    dict(name="c11g", grid_n=3, n_mazes=100, ctor="gen_dfs", ctor_kwargs={}, filters=[], seed=42),
    # ... and a FILTERED request that keeps at least 100 mazes: its cache file records the requested filter plus the automatic metadata collection
    dict(name="c11h", grid_n=3, n_mazes=110, ctor="gen_dfs", ctor_kwargs={}, filters=[["path_length", [], {"min_length": 2}]], seed=42),
]


def mk_cfg(spec):
    from maze_dataset.dataset.maze_dataset import MazeDatasetConfig
    from maze_dataset.generation.generators import GENERATORS_MAP

    return MazeDatasetConfig(
        name=spec["name"],
        grid_n=int(spec["grid_n"]),
        n_mazes=int(spec["n_mazes"]),
        maze_ctor=GENERATORS_MAP[spec["ctor"]],
        maze_ctor_kwargs=dict(spec.get("ctor_kwargs") or {}),
        endpoint_kwargs=dict(spec.get("endpoint_kwargs") or {}),
        seed=int(spec.get("seed", 42)),
        applied_filters=[dict(name=f[0], args=tuple(f[1]), kwargs=dict(f[2])) for f in spec.get("filters") or []],
    )


def fresh_dataset(spec):
    """the oracle: a fresh generation for the configuration, then its filters through the public filter interface"""
    from maze_dataset.dataset.maze_dataset import MazeDataset

    ds = MazeDataset.generate(mk_cfg(spec))
    for name, args, kwargs in spec.get("filters") or []:
        ds = getattr(ds.filter_by, name)(*args, **kwargs)
    return ds


def sig(ds):
    """what identifies the mazes of a dataset: (connection list, solution) in order"""
    return [(np.array(m.connection_list, dtype=bool), np.array(m.solution, dtype=int)) for m in ds.mazes]


def same(a, b):
    return len(a) == len(b) and all(x[0].shape == y[0].shape and np.array_equal(x[0], y[0]) and x[1].shape == y[1].shape and np.array_equal(x[1], y[1]) for x, y in zip(a, b))


def cache_path(spec, tmp):
    return os.path.join(tmp, mk_cfg(spec).to_fname() + ".zanj")


def request(spec, tmp, **kw):
    from maze_dataset.dataset.maze_dataset import MazeDataset

    return MazeDataset.from_config(mk_cfg(spec), local_base_path=tmp, do_download=False, **kw)


def read_bytes(path):
    if not os.path.exists(path):
        return None
    with open(path, "rb") as f:
        return f.read()


def check_file_after(res, spec, path, expected, inp, key="C11:file-not-loadable-after"):
    from maze_dataset.dataset.maze_dataset import MazeDataset

    if not os.path.isfile(path):
        res.fail(key, f"no cache file {os.path.basename(path)} after the request", inp, None)
        return
    try:
        back = MazeDataset.read(path)
        ok = same(sig(back), expected)
    except Exception as e:  # noqa: BLE001
        res.fail(key, f"the cache file left behind cannot be loaded: {type(e).__name__}: {e}", inp, repr(e))
        return
    if not ok:
        res.fail(key, "the cache file left behind loads but does not hold the mazes of a fresh generation", inp, len(back))


# ----------------------------------------------------------------------------- (b) damaged files
def damage(good: bytes, fault):
    kind = fault["kind"]
    if kind == "missing":
        return None
    if kind == "empty":
        return b""
    if kind == "truncated":
        return good[: int(fault["offset"])]
    if kind == "corrupt":
        p = int(fault["pos"])
        return good[:p] + bytes([good[p] ^ 0xFF]) + good[p + 1 :]
    raise ValueError(kind)


def check_damaged(res, spec, fault, workdir, good=None, expected=None, damaged=None):
    """one damaged-file request. `damaged` (bytes or None) overrides good+fault (used by replay)."""
    kind = fault["kind"]
    if expected is None:
        expected = sig(fresh_dataset(spec))
    path = cache_path(spec, workdir)
    if damaged is None and kind not in ("missing",):
        damaged = damage(good, fault)
    if os.path.exists(path):
        os.remove(path)
    if kind != "missing":
        with open(path, "wb") as f:
            f.write(damaged)
    inp = {"part": "damaged", "spec": spec, "fault": fault}
    if damaged is not None and len(damaged) <= 20000:
        inp["file_b64"] = base64.b64encode(damaged).decode()
    key = f"C11:regenerate:{kind}"
    try:
        ds = request(spec, workdir)
    except Exception as e:  # noqa: BLE001   the statement: a damaged file regenerates, the request does not fail
        res.seen((spec["name"], repr(fault)), nontrivial=True)
        res.fail(key, f"request with a {kind} cache file ({fault}) raised {type(e).__name__}: {str(e)[:200]}", inp, traceback.format_exc(limit=3))
        return
    after = read_bytes(path)
    rewritten = after != damaged
    res.seen((spec["name"], repr(fault)), nontrivial=rewritten, sample={"config": spec["name"], "fault": fault, "regenerated": rewritten})
    if not same(sig(ds), expected):
        if not rewritten:
            res.fail("C11:served-corrupt-data", f"a {kind} cache file ({fault}) was loaded and its (different) mazes were returned", inp, len(ds))
        else:
            res.fail(key, f"request with a {kind} cache file ({fault}) returned mazes that differ from a fresh generation", inp, len(ds))
    check_file_after(res, spec, path, expected, inp)


def structural_positions(good: bytes, every=False):
    """byte positions inside the archive's own bookkeeping (local headers, central directory, end record)"""
    import io

    out = set()
    with zipfile.ZipFile(io.BytesIO(good)) as z:
        infos = z.infolist()
        start_dir = z.start_dir
    for zi in infos:
        span = range(30 + len(zi.filename.encode())) if every else (0, 4, 6, 8, 10, 14, 18, 22, 26, 28, 30)
        out.update(zi.header_offset + k for k in span)
    tail = range(start_dir, len(good)) if every else [start_dir + k for k in (0, 4, 10, 16, 20, 24, 28, 42, 46)] + [len(good) - k for k in (22, 18, 14, 12, 10, 6, 2, 1)]
    out.update(tail)
    return sorted(p for p in out if 0 <= p < len(good))


def faults_for(good: bytes, tier, rng, first):
    n = len(good)
    faults = [{"kind": "missing"}, {"kind": "empty"}]
    if tier == "quick":
        offs = sorted(set(int(x) for x in np.linspace(1, n - 1, 64)))
    else:
        offs = list(range(1, n, 1 if first else 4))
    faults += [{"kind": "truncated", "offset": o} for o in offs]
    npos = 32 if tier == "quick" else 256
    pos = set(int(x) for x in rng.choice(n, size=min(npos, n), replace=False))
    pos |= set(structural_positions(good, every=(tier != "quick")))
    faults += [{"kind": "corrupt", "pos": p} for p in sorted(pos)]
    return faults


_SHARED = {}


def _work_damaged(rec, item):
    warnings.simplefilter("ignore")
    si, faults, workdir = item
    spec = SPECS_ACTIVE[si]
    os.makedirs(workdir, exist_ok=True)
    good, expected = _SHARED[si]
    for fault in faults:
        check_damaged(rec, spec, fault, workdir, good=good, expected=expected)


# ----------------------------------------------------------------------------- (a) plain caching
def check_roundtrip(res, spec, workdir, expected=None):
    """returns the bytes of the good cache file (or None)"""
    if expected is None:
        expected = sig(fresh_dataset(spec))
    inp = {"part": "roundtrip", "spec": spec}
    path = cache_path(spec, workdir)
    if os.path.exists(path):
        os.remove(path)
    res.seen(("roundtrip", spec["name"]), nontrivial=True, sample={"config": spec, "mazes_after_filters": len(expected)})
    try:
        d1 = request(spec, workdir)
    except Exception as e:  # noqa: BLE001
        res.fail("C11:first-request", f"first request raised {type(e).__name__}: {e}", inp, traceback.format_exc(limit=3))
        return None
    if not same(sig(d1), expected):
        res.fail("C11:first-request", "first request returned mazes that differ from a fresh generation", inp, len(d1))
    check_file_after(res, spec, path, expected, inp, key="C11:first-request")
    good = read_bytes(path)
    try:
        d2 = request(spec, workdir)
    except Exception as e:  # noqa: BLE001
        res.fail("C11:cached-request", f"second request (cache present) raised {type(e).__name__}: {e}", inp, traceback.format_exc(limit=3))
        return good
    if not same(sig(d2), expected):
        res.fail("C11:cached-request", "second request (cache present) returned mazes that differ from a fresh generation", inp, len(d2))
    check_file_after(res, spec, path, expected, inp, key="C11:cached-request")
    # all sources disabled is an error, not a silent None
    try:
        request(spec, workdir, do_generate=False, load_local=False)
        res.fail("C11:no-source", "request with every source disabled returned instead of raising ValueError", inp, None)
    except ValueError:
        pass
    except Exception as e:  # noqa: BLE001
        res.fail("C11:no-source", f"request with every source disabled raised {type(e).__name__}, not ValueError", inp, repr(e))
    return good


# ----------------------------------------------------------------------------- (c) foreign configurations
def foreign_variants(spec):
    """configurations that differ from `spec` in exactly one respect (label, other spec)"""
    out = []
    out.append(("seed", {**spec, "seed": spec["seed"] + 1}))
    out.append(("grid_n", {**spec, "grid_n": spec["grid_n"] + 1}))
    other_ctor = "gen_wilson" if spec["ctor"] != "gen_wilson" else "gen_dfs"
    out.append(("generator", {**spec, "ctor": other_ctor, "ctor_kwargs": {}}))
    if spec["ctor"] in ("gen_percolation", "gen_dfs_percolation"):
        out.append(("generator-kwargs", {**spec, "ctor_kwargs": {"p": 0.9 - spec["ctor_kwargs"].get("p", 0.4)}}))
    elif spec["ctor"] in ("gen_dfs", "gen_prim"):
        out.append(("generator-kwargs", {**spec, "ctor_kwargs": {"do_forks": not spec["ctor_kwargs"].get("do_forks", True)}}))
    out.append(("name", {**spec, "name": spec["name"] + "x"}))
    out.append(("filters", {**spec, "filters": list(spec["filters"]) + [["path_length", [], {"min_length": 2}]]}))
    out.append(("endpoints", {**spec, "endpoint_kwargs": {"endpoints_not_equal": True}}))
    return out


def buildable(other):
    """the foreign dataset; some generator/seed pairs cannot be generated at all (percolation leaving a one-cell
    component makes the library's path sampler raise) - move the foreign seed on until generation works"""
    last = None
    for bump in range(0, 40, 2):
        cand = {**other, "seed": other["seed"] + bump}
        try:
            return cand, fresh_dataset(cand)
        except Exception as e:  # noqa: BLE001
            last = e
    raise last


def check_foreign(res, spec, label, other, workdir, expected=None):
    from maze_dataset.dataset.maze_dataset import MazeDataset

    if expected is None:
        expected = sig(fresh_dataset(spec))
    inp = {"part": "foreign", "spec": spec, "label": label, "other": other}
    path = cache_path(spec, workdir)
    try:
        other, ds_other = buildable(other)
        inp["other"] = other
        ds_other.save(path)
        theirs = sig(ds_other)
    except Exception as e:  # noqa: BLE001   could not even build the foreign file: harness problem, not a violation
        res.errors.append(f"foreign variant {label} of {spec['name']}: {type(e).__name__}: {e}")
        return
    differ = not same(theirs, expected)
    res.seen(("foreign", spec["name"], label), nontrivial=differ, sample={"config": spec["name"], "foreign": label, "mazes_differ": differ})
    # strict mode: must raise ValueError
    try:
        got = request(spec, workdir, except_on_config_mismatch=True)
    except ValueError:
        got = None
    except Exception as e:  # noqa: BLE001
        res.fail("C11:mismatch-wrong-exception", f"foreign cache file (differs in {label}) raised {type(e).__name__} instead of ValueError: {str(e)[:200]}", inp, repr(e))
        got = None
    else:
        res.fail("C11:mismatch-not-raised", f"a cache file of another configuration (differs in {label}) under the requested name was accepted without ValueError", inp, len(got))
        if not same(sig(got), expected):
            res.fail("C11:served-wrong-config", f"the mazes of another configuration (differs in {label}) were returned for the request", inp, len(got))
    # lenient mode: may return, but never silently the other configuration's mazes
    with open(path, "wb") as f:
        pass
    os.remove(path)
    ds_other.save(path)
    with warnings.catch_warnings(record=True) as caught:
        warnings.simplefilter("always")
        try:
            got = request(spec, workdir, except_on_config_mismatch=False)
        except Exception:  # noqa: BLE001   raising is never "serving"
            got = None
    warnings.simplefilter("ignore")
    if got is not None and not same(sig(got), expected) and not any("mismatch" in str(w.message) for w in caught):
        res.fail("C11:served-wrong-config", f"except_on_config_mismatch=False: the mazes of another configuration (differs in {label}) were returned without any mismatch warning", inp, len(got))
    if os.path.exists(path):
        os.remove(path)


def check_count_only(res, spec, workdir, expected=None):
    """a cached file whose stored configuration differs ONLY in the maze count is accepted and served"""
    from maze_dataset.dataset.maze_dataset import MazeDataset

    if expected is None:
        expected = sig(fresh_dataset(spec))
    if len(expected) < 2:
        return
    inp = {"part": "count-only", "spec": spec}
    path = cache_path(spec, workdir)
    if os.path.exists(path):
        os.remove(path)
    # take the library's own cache file for this configuration and drop its last maze: nothing but the count changes
    try:
        request(spec, workdir)
        stored = MazeDataset.read(path)
    except Exception as e:  # noqa: BLE001   already a violation of part (a); reported under that key
        res.fail("C11:first-request", f"plain request (preparing the count-only file) raised {type(e).__name__}: {str(e)[:200]}", {"part": "roundtrip", "spec": spec}, repr(e))
        return
    keep = len(stored.mazes) - 1
    short = MazeDataset(cfg=stored.cfg, mazes=stored.mazes[:keep], generation_metadata_collected=stored.generation_metadata_collected)
    short.cfg.n_mazes = keep
    os.remove(path)
    short.save(path)
    res.seen(("count-only", spec["name"]), nontrivial=True)
    try:
        got = request(spec, workdir)
    except Exception as e:  # noqa: BLE001
        res.fail("C11:count-only-rejected", f"a cache file differing only in the maze count ({keep} instead of {spec['n_mazes']}) was rejected: {type(e).__name__}: {str(e)[:200]}", inp, repr(e))
    else:
        if not same(sig(got), expected[:keep]):
            res.fail("C11:count-only-rejected", "a cache file differing only in the maze count was not served as stored", inp, len(got))
    if os.path.exists(path):
        os.remove(path)


def check_mismatch_not_saved(res, spec, other, workdir, expected=None):
    """a source that hands back a dataset of another configuration: ValueError, and nothing is written under the requested name"""
    from maze_dataset.dataset.maze_dataset import MazeDataset

    if expected is None:
        expected = sig(fresh_dataset(spec))
    inp = {"part": "mismatch-saved", "spec": spec, "other": other}
    path = cache_path(spec, workdir)
    if os.path.exists(path):
        os.remove(path)
    other, foreign = buildable(other)
    inp["other"] = other

    class Downloading(MazeDataset):
        @classmethod
        def download(cls, cfg, **kwargs):
            return foreign

    res.seen(("mismatch-saved", spec["name"]), nontrivial=True)
    try:
        got = Downloading.from_config(mk_cfg(spec), local_base_path=workdir, do_download=True)
    except ValueError:
        got = None
    except Exception as e:  # noqa: BLE001
        res.fail("C11:mismatch-wrong-exception", f"a downloaded dataset of another configuration raised {type(e).__name__} instead of ValueError", inp, repr(e))
        got = None
    else:
        res.fail("C11:mismatch-not-raised", "a downloaded dataset of another configuration was accepted without ValueError", inp, len(got))
    if os.path.exists(path):
        try:
            stored = sig(MazeDataset.read(path))
            bad = not same(stored, expected)
        except Exception:  # noqa: BLE001
            bad = True
        if bad:
            res.fail("C11:mismatch-saved", "after a configuration mismatch a file that is not this configuration's dataset was left under the requested cache name", inp, None)
    try:
        again = request(spec, workdir)
        if not same(sig(again), expected):
            res.fail("C11:mismatch-saved", "the request following a configuration mismatch returned mazes that differ from a fresh generation", inp, len(again))
    except Exception as e:  # noqa: BLE001
        res.fail("C11:mismatch-saved", f"the request following a configuration mismatch raised {type(e).__name__}: {str(e)[:200]}", inp, repr(e))
    if os.path.exists(path):
        os.remove(path)


def _work_foreign(rec, item):
    warnings.simplefilter("ignore")
    si, workdir = item
    spec = SPECS_ACTIVE[si]
    os.makedirs(workdir, exist_ok=True)
    _good, expected = _SHARED[si]
    variants = foreign_variants(spec)
    for label, other in variants:
        check_foreign(rec, spec, label, other, workdir, expected=expected)
    check_count_only(rec, spec, workdir, expected=expected)
    check_mismatch_not_saved(rec, spec, variants[0][1], workdir, expected=expected)


# ----------------------------------------------------------------------------- (d) interrupted save
class _FaultyFile:
    """wraps the archive's real file object: the k-th write raises OSError after nothing (or the first half) of its bytes
    reached the file; afterwards the 'process is dead' - every later write raises as well"""

    def __init__(self, f, k, partial, counter):
        self._f, self._k, self._partial, self._counter = f, k, partial, counter
        self.dead = False

    def write(self, b):
        if self.dead:
            raise OSError("simulated: writer already interrupted")
        self._counter[0] += 1
        if self._k is not None and self._counter[0] == self._k:
            self.dead = True
            if self._partial and len(b) > 1:
                self._f.write(bytes(b)[: len(b) // 2])
            raise OSError(f"simulated interruption at low-level write #{self._k}")
        return self._f.write(b)

    def __getattr__(self, name):
        return getattr(self._f, name)


class interrupt_writes:
    """context manager: every zipfile.ZipFile opened for writing gets a _FaultyFile"""

    def __init__(self, k, partial):
        self.k, self.partial, self.counter, self.made = k, partial, [0], []

    def __enter__(self):
        self._orig = orig = zipfile.ZipFile.__init__
        outer = self

        def patched(zf, file, mode="r", *a, **kw):
            orig(zf, file, mode, *a, **kw)
            if mode in ("w", "x", "a") and zf.fp is not None:
                proxy = _FaultyFile(zf.fp, outer.k, outer.partial, outer.counter)
                zf.fp = proxy
                outer.made.append((zf, proxy))

        zipfile.ZipFile.__init__ = patched
        return self

    def __exit__(self, *exc):
        zipfile.ZipFile.__init__ = self._orig
        # the crash: whatever reached the file stays, nothing more is written, handles are dropped
        for zf, proxy in self.made:
            try:
                proxy._f.flush()
                proxy._f.close()
            except Exception:  # noqa: BLE001
                pass
            if proxy.dead or zf.fp is proxy:
                zf.fp = None
                zf._writing = False
        return False


def count_writes(spec, workdir):
    path = cache_path(spec, workdir)
    if os.path.exists(path):
        os.remove(path)
    with interrupt_writes(None, False) as iw:
        request(spec, workdir)
    if os.path.exists(path):
        os.remove(path)
    return iw.counter[0]


def check_interrupted(res, spec, k, partial, workdir, expected=None):
    if expected is None:
        expected = sig(fresh_dataset(spec))
    inp = {"part": "interrupted", "spec": spec, "k": int(k), "partial": bool(partial)}
    path = cache_path(spec, workdir)
    if os.path.exists(path):
        os.remove(path)
    raised = None
    with interrupt_writes(int(k), bool(partial)) as iw:
        try:
            request(spec, workdir)
        except OSError as e:
            raised = e
        except Exception as e:  # noqa: BLE001   the interruption surfaced as something else; still an interrupted save
            raised = e
    hit = any(p.dead for _zf, p in iw.made)
    left = read_bytes(path)
    res.seen(("interrupted", spec["name"], k, partial), nontrivial=hit, sample={"config": spec["name"], "write": k, "partial": partial, "bytes_left": None if left is None else len(left)})
    if not hit:
        return  # fewer than k writes: nothing was interrupted
    try:
        ds = request(spec, workdir)
    except Exception as e:  # noqa: BLE001
        res.fail("C11:interrupted-save", f"after a save interrupted at low-level write #{k} ({'half' if partial else 'none'} of it on disk, {None if left is None else len(left)} bytes left) the next request raised {type(e).__name__}: {str(e)[:200]}", inp, traceback.format_exc(limit=3))
        return
    if not same(sig(ds), expected):
        res.fail("C11:interrupted-save", f"after a save interrupted at low-level write #{k} the next request returned mazes that differ from a fresh generation", inp, len(ds))
    check_file_after(res, spec, path, expected, inp)


def _work_interrupted(rec, item):
    warnings.simplefilter("ignore")
    si, ks, workdir = item
    spec = SPECS_ACTIVE[si]
    os.makedirs(workdir, exist_ok=True)
    _good, expected = _SHARED[si]
    for k, partial in ks:
        check_interrupted(rec, spec, k, partial, workdir, expected=expected)


# ----------------------------------------------------------------------------- driver
SPECS_ACTIVE = SPECS


def run(tier, seed):
    warnings.simplefilter("ignore")
    t_all = time.time()
    rng = np.random.default_rng(seed)
    tmp = tempfile.mkdtemp(prefix="mzverif-C11-", dir="/var/tmp")
    r_damaged = BoundedResult(
        "C11.damaged-cache-file",
        rule=f"{len(SPECS)} small configurations (5 generators, grid 3..4, 3..5 mazes, with and without filters, plus a 100-maze configuration and a filtered 110-maze configuration stored in the compact array format); cache file missing, empty, truncated at "
        + ("64 evenly spaced offsets" if tier == "quick" else "every byte offset (first configuration) / every 4th byte (others)")
        + ", single bytes XOR 0xFF at "
        + ("32 seeded positions + the archive's header fields" if tier == "quick" else "256 seeded positions + every byte of the archive's headers, central directory and end record")
        + "; non-trivial = the damaged file was not usable and the cache file was rewritten; distinct by (configuration, fault)",
        exhaustive=False,
        functions=["GPTDataset.from_config", "GPTDataset.read", "GPTDataset.save", "MazeDataset.load", "MazeDataset.serialize", "MazeDatasetConfig.to_fname"],
    )
    r_foreign = BoundedResult(
        "C11.foreign-cache-file",
        rule="for each configuration: plain generate/load round trip; cache files of configurations differing in exactly one of seed / grid_n / generator / generator kwargs / name / filters / "
        "endpoint kwargs placed under the requested name (strict and lenient mode); a file differing only in the maze count; a download source returning another configuration's dataset; "
        "non-trivial = the foreign mazes differ from the requested ones",
        exhaustive=False,
        functions=["GPTDataset.from_config"],
    )
    r_intr = BoundedResult(
        "C11.interrupted-save",
        rule="for each configuration: the save inside from_config interrupted at every low-level write k=1..N of the archive's file object (N counted on an undisturbed run; "
        "nothing / half of the k-th write reaches the disk, later writes never happen), then a plain request; non-trivial = the k-th write happened",
        exhaustive=True,
        functions=["GPTDataset.save", "GPTDataset.from_config"],
    )
    results = [r_damaged, r_foreign, r_intr]
    try:
        # (a) + reference data, sequential (cheap)
        c_foreign = Capped(r_foreign)
        for si, spec in enumerate(SPECS):
            expected = sig(fresh_dataset(spec))
            wd = os.path.join(tmp, f"rt{si}")
            os.makedirs(wd)
            good = check_roundtrip(c_foreign, spec, wd, expected=expected)
            if good is None:
                # no usable reference file: build one directly so that the fault parts still run
                fresh_dataset(spec).save(cache_path(spec, wd))
                good = read_bytes(cache_path(spec, wd))
            _SHARED[si] = (good, expected)
        # (b)
        t0 = time.time()
        items = []
        for si, spec in enumerate(SPECS):
            faults = faults_for(_SHARED[si][0], tier, rng, first=(si == 0))
            nchunks = max(1, min(len(faults) // 12, 32 if tier != "quick" else 6))
            for c in range(nchunks):
                items.append((si, faults[c::nchunks], os.path.join(tmp, f"dm{si}_{c}")))
        pmap(Capped(r_damaged), _work_damaged, items, procs=14)
        r_damaged.seconds = time.time() - t0
        # (c)
        t0 = time.time()
        pmap(c_foreign, _work_foreign, [(si, os.path.join(tmp, f"fr{si}")) for si in range(len(SPECS))], procs=len(SPECS))
        r_foreign.seconds = time.time() - t0
        # (d)
        t0 = time.time()
        items = []
        for si, spec in enumerate(SPECS):
            wd = os.path.join(tmp, f"cw{si}")
            os.makedirs(wd)
            try:
                n = count_writes(spec, wd)
            except Exception as e:  # noqa: BLE001   the undisturbed request itself fails: part (a) has reported it
                Capped(r_intr).fail("C11:first-request", f"undisturbed request raised {type(e).__name__}: {str(e)[:200]}", {"part": "roundtrip", "spec": spec}, repr(e))
                continue
            if n < 4:
                r_intr.errors.append(f"only {n} low-level writes observed while saving {spec['name']}: the interception point is wrong")
            ks = [(k, partial) for k in range(1, n + 1) for partial in (False, True)]
            for c in range(3):
                items.append((si, ks[c::3], os.path.join(tmp, f"in{si}_{c}")))
        pmap(Capped(r_intr), _work_interrupted, items, procs=14)
        r_intr.seconds = time.time() - t0
    except Exception as e:  # noqa: BLE001
        r_damaged.errors.append(f"{type(e).__name__}: {e}\n{traceback.format_exc(limit=8)}")
    finally:
        shutil.rmtree(tmp, ignore_errors=True)
    r_foreign.seconds = max(r_foreign.seconds, 0.0)
    if not any(r.seconds for r in results):
        r_damaged.seconds = time.time() - t_all
    return results


def replay(check_name, inp):
    """re-run one recorded input; True iff the request now behaves as the statement says"""
    warnings.simplefilter("ignore")
    res = BoundedResult("replay", "replay")
    spec = _plain(inp["spec"])
    tmp = tempfile.mkdtemp(prefix="mzverif-C11-replay-", dir="/var/tmp")
    try:
        part = inp.get("part")
        if part == "damaged":
            fault = _plain(inp["fault"])
            if inp.get("file_b64") is not None:
                check_damaged(res, spec, fault, tmp, damaged=base64.b64decode(inp["file_b64"]))
            else:
                wd = os.path.join(tmp, "good")
                os.makedirs(wd)
                fresh_dataset(spec).save(cache_path(spec, wd))
                check_damaged(res, spec, fault, tmp, good=read_bytes(cache_path(spec, wd)))
        elif part == "roundtrip":
            check_roundtrip(res, spec, tmp)
        elif part == "foreign":
            check_foreign(res, spec, inp["label"], _plain(inp["other"]), tmp)
        elif part == "count-only":
            check_count_only(res, spec, tmp)
        elif part == "mismatch-saved":
            check_mismatch_not_saved(res, spec, _plain(inp["other"]), tmp)
        elif part == "interrupted":
            check_interrupted(res, spec, int(inp["k"]), bool(inp["partial"]), tmp)
        else:
            print("  unknown replay input")
            return False
    finally:
        shutil.rmtree(tmp, ignore_errors=True)
    for e in res.errors:
        print("  harness error:", e)
    for f in res.failures:
        print("  still failing:", f["key"], str(f["what"])[:300])
    return not res.failures and not res.errors


def _plain(x):
    """undo the JSON round trip of the runner (numpy wrappers -> plain lists)"""
    if isinstance(x, np.ndarray):
        return x.tolist()
    if isinstance(x, dict):
        if "__ndarray__" in x:
            return list(x["__ndarray__"])
        return {k: _plain(v) for k, v in x.items()}
    if isinstance(x, (list, tuple)):
        return [_plain(v) for v in x]
    return x
