"""Shared helpers of the dataset-level bounded stand-ins (C05, C08): JSON-able dataset recipes, independent
copies / snapshots of a dataset's observable state, and the statement-level oracle for collected metadata.
Nothing here calls the code under check except to CONSTRUCT objects (MazeDatasetConfig, SolvedMaze, MazeDataset,
MazeDataset.generate); copies and comparisons are done by hand on numpy arrays, never with maze `==`."""
from __future__ import annotations

import json
from collections import Counter

import numpy as np

from vlib import pyspec as S

GENS = ["gen_dfs", "gen_wilson", "gen_percolation", "gen_dfs_percolation", "gen_prim"]


# --------------------------------------------------------------------------------------------- recipes
def gen_kwargs(gen, grid_n):
    """generator arguments that make generation succeed reliably on small grids"""
    if gen == "gen_percolation":
        return {"p": 0.9 if grid_n <= 3 else 0.8}
    if gen == "gen_dfs_percolation":
        return {"p": 0.3}
    return {}


def _snake(g):
    out = []
    for i in range(g):
        cols = range(g) if i % 2 == 0 else range(g - 1, -1, -1)
        out.extend((i, j) for j in cols)
    return out


def make_path(rng, g, k):
    """a self-avoiding lattice walk with exactly k cells on a g x g grid (k <= g*g)"""
    k = max(1, min(int(k), g * g))
    if k == g * g:
        return _snake(g)
    for _ in range(200):
        cur = (int(rng.integers(g)), int(rng.integers(g)))
        path = [cur]
        while len(path) < k:
            nb = [n for n in S.lattice_neighbors((g, g), path[-1]) if n not in path]
            if not nb:
                break
            path.append(nb[int(rng.integers(len(nb)))])
        if len(path) == k:
            return path
    return _snake(g)[:k]


def _conn_with_path(rng, g, path, p=0.4):
    conn = S.random_conn(rng, g, g, p=p)
    for a, b in zip(path[:-1], path[1:]):
        d = 0 if a[0] != b[0] else 1
        conn[d, min(a[0], b[0]), min(a[1], b[1])] = True
    return conn


def _hand_meta(rng, g, path, idx, conn):
    vc = set(path) if idx % 2 == 0 else np.array(path, dtype=int).reshape(-1, 2)
    return {
        "func_name": "hand",
        "grid_shape": np.array([g, g]),
        "start_coord": np.array(path[0]),
        "n_accessible_cells": int(g * g),
        "fully_connected": bool(S.is_connected(conn)),
        "percolation_p": 0.5 if idx % 3 else 0.25,
        "tag": "even" if idx % 2 == 0 else "odd",
        "visited_cells": vc,
    }


def copy_meta(meta):
    if meta is None:
        return None
    out = {}
    for k, v in meta.items():
        if isinstance(v, np.ndarray):
            out[k] = v.copy()
        elif isinstance(v, set):
            out[k] = set(v)
        elif isinstance(v, list):
            out[k] = list(v)
        else:
            out[k] = v
    return out


def maze_parts(ds):
    """hand-made independent copies [(connection_list, solution, generation_meta)]"""
    return [(np.array(m.connection_list, dtype=np.bool_, copy=True), np.array(m.solution, copy=True), copy_meta(m.generation_meta)) for m in ds.mazes]


def _variant(rng, op, cl, sol, meta):
    cl = cl.copy()
    sol = sol.copy()
    g = cl.shape[1]
    if op == "dup":
        pass
    elif op in ("cl1", "cl2"):
        slots = S.lattice_edge_slots(cl.shape[1], cl.shape[2])
        off = [s for s in slots if not cl[s]] or slots
        on = [s for s in slots if cl[s] and s not in off]
        pick = (off + on)[: (1 if op == "cl1" else 2)]
        for s in pick:
            cl[s] = not cl[s]
    elif op in ("sol1", "sol2"):
        r, c = int(sol[-1][0]), int(sol[-1][1])
        sol[-1][1] = c + 1 if c + 1 < g else c - 1
        if op == "sol2":
            sol[-1][0] = r + 1 if r + 1 < g else r - 1
    else:
        raise ValueError(op)
    return cl, sol, copy_meta(meta)


def build(recipe):
    """recipe (JSON-able dict) -> MazeDataset; deterministic"""
    from maze_dataset.dataset.maze_dataset import MazeDataset, MazeDatasetConfig
    from maze_dataset.generation.generators import GENERATORS_MAP
    from maze_dataset.maze import SolvedMaze

    kind = recipe["kind"]
    g = int(recipe["grid_n"])
    seed = int(recipe.get("seed", 42))
    meta_mode = recipe.get("meta", "permaze")
    if kind == "gen":
        gen = recipe["gen"]
        kwargs = dict(recipe.get("kwargs") or gen_kwargs(gen, g))
        ds = None
        last = None
        for attempt in range(25):
            cfg = MazeDatasetConfig(name=recipe.get("name", f"{gen}-g{g}"), grid_n=g, n_mazes=int(recipe["n"]), maze_ctor=GENERATORS_MAP[gen], maze_ctor_kwargs=kwargs, seed=seed + 1000 * attempt)
            try:
                ds = MazeDataset.generate(cfg)
                break
            except (ValueError, AssertionError) as e:  # a percolation maze whose start cell is isolated: not this property's business
                last = e
        if ds is None:
            raise RuntimeError(f"could not generate {recipe}: {last}")
        cfg_kw = dict(name=ds.cfg.name, grid_n=g, maze_ctor=GENERATORS_MAP[gen], maze_ctor_kwargs=kwargs, seed=ds.cfg.seed)
        parts = maze_parts(ds)
    elif kind == "hand":
        rng = np.random.default_rng(seed)
        parts = []
        for idx, k in enumerate(recipe["lengths"]):
            path = make_path(rng, g, k)
            conn = _conn_with_path(rng, g, path)
            parts.append((conn, np.array(path, dtype=int).reshape(-1, 2), _hand_meta(rng, g, path, idx, conn)))
        cfg_kw = dict(name=recipe.get("name", f"hand-g{g}"), grid_n=g)
    else:
        raise ValueError(kind)
    if recipe.get("plant"):
        rng = np.random.default_rng(seed + 7)
        for op, src, pos in recipe["plant"]:
            new = _variant(rng, op, *parts[int(src) % len(parts)])
            pos = int(pos)
            if pos < 0 or pos >= len(parts):
                parts.append(new)
            else:
                parts.insert(pos, new)
    keep_meta = meta_mode in ("permaze", "collected")
    mazes = [SolvedMaze(cl, sol, generation_meta=(meta if keep_meta else None)) for cl, sol, meta in parts]
    if recipe.get("endpoint_kwargs"):
        # endpoint options recorded in the configuration (coordinate lists are lists of TUPLES in a configuration; a JSON recipe has lists)
        cfg_kw["endpoint_kwargs"] = {k: ([tuple(int(c) for c in x) for x in v] if isinstance(v, (list, tuple)) else v) for k, v in recipe["endpoint_kwargs"].items()}
    cfg = MazeDatasetConfig(n_mazes=len(mazes), **cfg_kw)
    out = MazeDataset(cfg=cfg, mazes=mazes, generation_metadata_collected=({} if meta_mode == "empty" else None))
    if meta_mode == "collected":
        out.filter_by.collect_generation_meta()
    return out


# --------------------------------------------------------------------------------------------- observation
def maze_key(m):
    cl = np.asarray(m.connection_list)
    sol = np.asarray(m.solution)
    return (tuple(cl.shape), cl.astype(np.bool_).tobytes(), tuple(sol.shape), sol.astype(np.int64).tobytes())


def canon(x):
    """canonical, id-independent, hashable-ish text form of metadata values"""
    if isinstance(x, np.ndarray):
        return ["nd", x.tolist()]
    if isinstance(x, (set, frozenset)):
        return ["set", sorted(canon(v) for v in x)]
    if isinstance(x, dict):
        return ["dict", sorted(([repr(canon(k)), canon(v)] for k, v in x.items()), key=lambda kv: kv[0])]
    if isinstance(x, (list, tuple)):
        return [type(x).__name__, [canon(v) for v in x]]
    if isinstance(x, np.generic):
        return x.item()
    return x


def cfg_text(cfg):
    return json.dumps(cfg.serialize(), default=str)


def snapshot(ds):
    """everything observable about a dataset that the properties talk about, independent of object identity"""
    return {
        "len": len(ds.mazes),
        "cfg": cfg_text(ds.cfg),
        "arrays": [
            tuple((tuple(np.asarray(a).shape), str(np.asarray(a).dtype), np.asarray(a).tobytes()) for a in (m.connection_list, m.solution, m.start_pos, m.end_pos))
            for m in ds.mazes
        ],
        "meta": [repr(canon(m.generation_meta)) for m in ds.mazes],
        "collected": repr(canon(ds.generation_metadata_collected)),
    }


def snapshot_diff(a, b):
    return [k for k in ("len", "cfg", "arrays", "meta", "collected") if a[k] != b[k]]


def arrays_of(ds):
    return [tuple(np.array(a, copy=True) for a in (m.connection_list, m.solution, m.start_pos, m.end_pos)) for m in ds.mazes]


ARRAY_NAMES = ("connection_list", "solution", "start_pos", "end_pos")


def same_array(a, b):
    a = np.asarray(a)
    b = np.asarray(b)
    return a.shape == b.shape and bool(np.array_equal(a, b))


# --------------------------------------------------------------------------------------------- metadata oracle
def _nk(v):
    if isinstance(v, np.generic):
        v = v.item()
    if isinstance(v, (tuple, list, np.ndarray)):
        return tuple(int(x) for x in v)
    return v


def recount(meta_list):
    """statement: for every metadata key the exact count of each value over all mazes; a coordinate is one value,
    a collection of coordinates contributes each of its coordinates"""
    out = {}
    for meta in meta_list:
        for key, v in meta.items():
            c = out.setdefault(key, Counter())
            if isinstance(v, (set, frozenset)):
                for x in v:
                    c[_nk(x)] += 1
            elif isinstance(v, (list, np.ndarray)):
                arr = np.array(v)
                if arr.ndim == 1:
                    c[_nk(arr)] += 1
                else:
                    for row in arr:
                        c[_nk(row)] += 1
            else:
                c[_nk(v)] += 1
    return {k: dict(v) for k, v in out.items()}


def norm_collected(d, as_text):
    """normalise a collected-metadata dict: tuple/list keys -> tuple of ints; with as_text every key -> its str()
    (JSON object keys are strings, so a serialised dict can only be compared in that form)"""
    if d is None:
        return None
    out = {}
    for key, counts in d.items():
        inner = {}
        for k, n in counts.items():
            k = _nk(k)
            if as_text:
                k = str(k)
            inner[k] = inner.get(k, 0) + int(n)
        out[str(key)] = inner
    return out
