"""Sidecar contract for dataset-level tokenization (C07, last clause): the per-maze tokenization of each maze in order, honouring the limit and the join option.
A maze and a tokenizer are opaque objects here: `maze.as_tokens(tokenizer)` is an unknown function of the two."""
from pyvc.contracts import contract
from pyvc import tys as T

MD = "maze_dataset/dataset/maze_dataset.py"
DS = T.RecT("MazeDataset", mazes=T.ListT(T.ObjT("maze")))
_N = "len(self.mazes)"
_K = f"(ite(limit <= {_N}, limit, {_N}) if limit is not None else {_N})"


@contract(MD, "MazeDataset.as_tokens")
class dataset_as_tokens:
    params = dict(self=DS, maze_tokenizer=T.ObjT("tokenizer"), limit=T.OneOf(T.NoneT(), T.Nat), join_tokens_individual_maze=T.OneOf(T.Const(False), T.Const(True)))
    ensures = {
        # the first `limit` mazes (all of them without a limit), in order
        "C07.dataset.count": f"len(result) == {_K}",
        "C07.dataset.items": f"forall(lambda k: result[k] == (' '.join(self.mazes[k].as_tokens(maze_tokenizer)) if join_tokens_individual_maze else self.mazes[k].as_tokens(maze_tokenizer)), (0, {_K}))",
    }
    options = dict(no_concrete=True)
    props = ["C07"]
