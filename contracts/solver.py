"""Sidecar contract for LatticeMaze.find_shortest_path (C02: sound and complete; optimality is bounded)."""
from pyvc.contracts import contract, Loop
from pyvc import tys as T
import contracts.lattice_maze  # noqa: F401

F = "maze_dataset/maze/lattice_maze.py"

_IN_D = lambda v: f"({v} in open_vtx or {v} in closed_vtx)"  # noqa: E731

A_INV = {
    # A1: open and closed are disjoint; the start has been discovered; the goal is not closed
    "A1.disjoint": "forall(lambda i, j: not ((i, j) in open_vtx and (i, j) in closed_vtx), None, None)",
    "A1.start": "c_start in open_vtx or c_start in closed_vtx",
    "A1.goal-not-closed": "c_end not in closed_vtx",
    # A2: the predecessor structure: every discovered cell but the start has a closed predecessor joined by an edge, one step closer
    "A2.source": "forall(lambda i, j: implies(((i, j) in open_vtx or (i, j) in closed_vtx) and not (i == c_start[0] and j == c_start[1]),"
    " (i, j) in source and source[(i, j)] in closed_vtx and edge(self, source[(i, j)], (i, j))"
    " and g_score[(i, j)] == g_score[source[(i, j)]] + 1), None, None)",
    "A2.start-has-no-source": "c_start not in source",
    "A2.source-dom": "forall(lambda i, j: implies((i, j) in source, (i, j) in open_vtx or (i, j) in closed_vtx), None, None)",
    # A3: no discovered cell is cheaper than the start (so the start is never re-parented)
    "A3.start-minimal": "forall(lambda i, j: implies((i, j) in open_vtx or (i, j) in closed_vtx, g_score[(i, j)] >= g_score[c_start]), None, None)",
    # A4: everything discovered is reachable from the start and lies in the grid
    "A4.reach": "forall(lambda i, j: implies((i, j) in open_vtx or (i, j) in closed_vtx, reach(self, c_start, (i, j)) and in_grid(self, (i, j))), None, None)",
    # A5: every edge out of a closed cell ends in a discovered cell
    "A5.closed-edges": "forall(lambda i, j, a, b: implies((i, j) in closed_vtx and edge(self, (i, j), (a, b)), (a, b) in open_vtx or (a, b) in closed_vtx), None, None, None, None)",
    # A6: scores exist where they are read (no KeyError)
    "A6.scores": "forall(lambda i, j: implies((i, j) in open_vtx or (i, j) in closed_vtx, (i, j) in g_score), None, None)"
    " and forall(lambda i, j: implies((i, j) in open_vtx, (i, j) in f_score), None, None)",
}

STATE = dict(
    open_vtx=T.SetT(2),
    closed_vtx=T.SetT(2),
    source=T.DictT(2, T.CoordTup),
    g_score=T.DictT(2, T.Real),
    f_score=T.DictT(2, T.Real),
)

INNER = dict(A_INV)
INNER["A5.closed-edges"] = (
    "forall(lambda i, j, a, b: implies((i, j) in closed_vtx and not (i == c_current[0] and j == c_current[1]) and edge(self, (i, j), (a, b)),"
    " (a, b) in open_vtx or (a, b) in closed_vtx), None, None, None, None)"
)
INNER["A5.current-so-far"] = "all_cands(_cands, _m, lambda g, v: implies(g, (v[0], v[1]) in open_vtx or (v[0], v[1]) in closed_vtx))"
INNER["A1.current-closed"] = "c_current in closed_vtx and c_current not in open_vtx"


@contract(F, "LatticeMaze.find_shortest_path")
class find_shortest_path:
    params = dict(self=T.Maze(), c_start=T.CoordTup, c_end=T.CoordTup)
    requires = ["in_grid(self, c_start)", "in_grid(self, c_end)"]
    ensures = {
        "C02.nonempty": "nrows(result) >= 1",
        "C02.starts": "result[0][0] == c_start[0] and result[0][1] == c_start[1]",
        "C02.ends": "result[nrows(result) - 1][0] == c_end[0] and result[nrows(result) - 1][1] == c_end[1]",
        "C02.in-grid": "forall(lambda k: in_grid(self, result[k]), (0, nrows(result)))",
        "C02.along-connections": "forall(lambda k: edge(self, result[k], result[k + 1]), (0, nrows(result) - 1))",
        "C02.simple": "distinct_rows(result)",
        "C02.self-query": "implies(c_start[0] == c_end[0] and c_start[1] == c_end[1], nrows(result) == 1)",
        "C02.returns-only-if-connected": "reach(self, c_start, c_end)",
    }
    raises = {"ValueError": "not reach(self, c_start, c_end)"}
    raise_lemmas = ["reach_induction(self, c_start, lambda v: v in final(closed_vtx))"]
    loops = {
        0: Loop(head="while open_vtx", havoc=STATE, inv=A_INV),
        1: Loop(
            head="while p_current in source",
            havoc=dict(path=T.ListT(T.CoordTup), p_current=T.CoordTup),
            inv={
                "R.tip": "len(path) >= 1 and p_current[0] == path[len(path) - 1][0] and p_current[1] == path[len(path) - 1][1]",
                "R.from-goal": "path[0][0] == c_end[0] and path[0][1] == c_end[1]",
                "R.discovered": "forall(lambda k: (path[k][0], path[k][1]) in open_vtx or (path[k][0], path[k][1]) in closed_vtx, (0, len(path)))",
                "R.steps": "forall(lambda k: edge(self, path[k + 1], path[k]), (0, len(path) - 1))",
                "R.g-decreases": "forall(lambda k: g_score[(path[k][0], path[k][1])] == g_score[c_end] - k, (0, len(path)))",
            },
        ),
        2: Loop(head="for _np_neighbor in self.get_coord_neighbors(c_current)", cut=True, havoc=STATE, inv=INNER),
    }
    result = T.ListT(T.CoordTup)
    props = ["C02", "C03"]
