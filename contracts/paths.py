"""Sidecar contracts for endpoint selection and solved-maze construction (C03, C12 last sentence)."""
from pyvc.contracts import contract, Loop, REGISTRY
from pyvc import tys as T
import contracts.lattice_maze  # noqa: F401
import contracts.solver  # noqa: F401

F = "maze_dataset/maze/lattice_maze.py"
REGISTRY.class_files.update({"LatticeMaze": F})

COORDS = T.OneOf(T.NoneT(), T.ListT(T.CoordTup))


_R, _C = "self.connection_list.shape[1]", "self.connection_list.shape[2]"


@contract(F, "LatticeMaze.get_nodes",
          notes="verified against its body; trusted: the library contracts of np.meshgrid(indexing='ij') / ndarray.ravel / np.vstack / .T and the row-major index algebra (Lean: unravel_*)")
class get_nodes:
    """every cell of the grid exactly once, in row-major order: entry k is the cell (k // C, k % C)"""
    params = dict(self=T.Maze())
    exit_lemmas = [f"unravel_lemma({_R}, {_C})"]
    ensures = {
        "count": f"len(result) == {_R} * {_C}",
        "row-major": f"forall(lambda k: result[k][0] == unravel_row(k, {_C}) and result[k][1] == unravel_col(k, {_C}), (0, len(result)))",
        "onto": f"forall(lambda i, j: 0 <= ravel_index(i, j, {_C}) and ravel_index(i, j, {_C}) < len(result) and result[ravel_index(i, j, {_C})][0] == i and result[ravel_index(i, j, {_C})][1] == j, (0, {_R}), (0, {_C}))",
        "in-grid": "forall(lambda k: in_grid(self, result[k]), (0, len(result)))",
        "distinct": "forall(lambda a, b: implies(a != b, not (result[a][0] == result[b][0] and result[a][1] == result[b][1])), (0, len(result)), (0, len(result)))",
    }
    result = T.GridT("int", [None, 2])
    props = ["C13"]


CONN3 = T.GridT("bool", [2, None, None])
# the three shapes of generation metadata the generators produce
META_A = T.PyDictT(start_coord=T.Coord, fully_connected=T.Bool, visited_cells=T.SetT(2))          # gen_dfs, gen_prim, gen_dfs_percolation
META_B = T.PyDictT(start_coord=T.Coord, visited_cells=T.ListT(T.CoordTup))                           # gen_percolation (never flagged)
META_C = T.PyDictT(fully_connected=T.Const(True))                                                    # gen_wilson
META_D = T.PyDictT(start_coord=T.Coord, fully_connected=T.Bool, visited_cells=T.ListT(T.CoordTup))  # gen_dfs_percolation (cells recomputed as a list)
MAZE_META = T.OneOf(*[T.RecT("LatticeMaze", connection_list=CONN3, generation_meta=m) for m in (META_A, META_B, META_C, META_D)])
_GM = "self.generation_meta"
_RC = "(0, self.connection_list.shape[1]), (0, self.connection_list.shape[2])"
# "the generation metadata tells the truth" (C12, proved for every generator): whenever it records visited cells they are exactly the cells
# reachable from the recorded start cell (each listed once); whenever it flags the maze fully connected every cell is reachable from every
# other; a maze not flagged fully connected records its visited cells
MT = [
    f"(in_grid(self, {_GM}['start_coord']) and forall(lambda i, j: ((i, j) in {_GM}['visited_cells']) == reach(self, {_GM}['start_coord'], (i, j)), None, None))"
    f" if has_key({_GM}, 'visited_cells') else True",
    f"(distinct_rows({_GM}['visited_cells']) and forall(lambda t: reach(self, {_GM}['start_coord'], {_GM}['visited_cells'][t]), (0, len({_GM}['visited_cells']))))"
    f" if (has_key({_GM}, 'visited_cells') and is_list({_GM}['visited_cells'])) else True",
    f"implies({_GM}['fully_connected'], forall(lambda i, j, a, b: reach(self, (i, j), (a, b)), {_RC}, {_RC})) if has_key({_GM}, 'fully_connected') else True",
    f"has_key({_GM}, 'visited_cells') or {_GM}['fully_connected'] == True",
]


@contract(F, "LatticeMaze.get_connected_component")
class get_connected_component:
    """C12, last sentence: the cells random endpoints are drawn from are mutually reachable, given truthful metadata"""
    params = dict(self=MAZE_META)
    requires = MT
    entry_lemmas = [f"reach_common(self, {_GM}['start_coord']) if has_key({_GM}, 'start_coord') else True"]
    ensures = {
        "C12.in-grid": "forall(lambda k: in_grid(self, result[k]), (0, len(result)))",
        "C12.one-component": "forall(lambda a, b: reach(self, result[a], result[b]), (0, len(result)), (0, len(result)))",
        "C12.distinct": "forall(lambda a, b: implies(a != b, not (result[a][0] == result[b][0] and result[a][1] == result[b][1])), (0, len(result)), (0, len(result)))",
    }
    result = T.GridT("int", [None, 2])
    props = ["C03", "C12"]


_DEG1 = lambda v: (  # noqa: E731
    f"(ite(edge(self, {v}, ({v}[0] + 1, {v}[1])), 1, 0) + ite(edge(self, {v}, ({v}[0] - 1, {v}[1])), 1, 0)"
    f" + ite(edge(self, {v}, ({v}[0], {v}[1] + 1)), 1, 0) + ite(edge(self, {v}, ({v}[0], {v}[1] - 1)), 1, 0) == 1)"
)
_S = "result[0]"
_E = "result[nrows(result) - 1]"


@contract(F, "LatticeMaze.generate_random_path")
class generate_random_path:
    params = dict(self=MAZE_META, except_when_invalid=T.Const(True), allowed_start=COORDS, allowed_end=COORDS,
                  deadend_start=T.Bool, deadend_end=T.Bool, endpoints_not_equal=T.Bool)
    requires = ["self.connection_list.shape[1] > 1 and self.connection_list.shape[2] > 1"] + MT
    ensures = {
        # the path is a correct shortest solution between its own ends (find_shortest_path's contract, C02)
        "C03.nonempty": "nrows(result) >= 1",
        "C03.in-grid": "forall(lambda k: in_grid(self, result[k]), (0, nrows(result)))",
        "C03.along-connections": "forall(lambda k: edge(self, result[k], result[k + 1]), (0, nrows(result) - 1))",
        "C03.simple": "distinct_rows(result)",
        "C03.shortest": f"nrows(result) - 1 == dist(self, {_S}, {_E})",
        # the endpoint options are honoured
        "C03.allowed_start": f"allowed_start is None or exists(lambda t: allowed_start[t][0] == {_S}[0] and allowed_start[t][1] == {_S}[1], (0, len(allowed_start)))",
        "C03.allowed_end": f"allowed_end is None or exists(lambda t: allowed_end[t][0] == {_E}[0] and allowed_end[t][1] == {_E}[1], (0, len(allowed_end)))",
        "C03.deadend_start": f"implies(deadend_start, {_DEG1(_S)})",
        "C03.deadend_end": f"implies(deadend_end, {_DEG1(_E)})",
        "C03.endpoints_not_equal": f"implies(endpoints_not_equal, not ({_S}[0] == {_E}[0] and {_S}[1] == {_E}[1]))",
        # endpoints are distinct unless the endpoint options allow otherwise
        "C03.distinct-by-default": "implies(allowed_start is None and allowed_end is None and not deadend_start and not deadend_end,"
        f" not ({_S}[0] == {_E}[0] and {_S}[1] == {_E}[1]))",
    }
    raises = {"ValueError": None}
    # the dead-end test only needs the number of neighbours
    uses_ensures = {"LatticeMaze.get_coord_neighbors": ["C13.count"]}
    result = T.ListT(T.CoordTup)
    props = ["C03", "C12"]


# ---------------------------------------------------------------------------------------------------- C03: one generated item
import contracts.generators as CG  # noqa: E402

L = "/verif/contracts/lemmas_src.py"
_P = "result[1]"
_PS = "result[1][0]"
_PE = "result[1][nrows(result[1]) - 1]"
_M0 = "result[0]"
_ITEM = {
    # a maze of the configured grid size whose stored solution stays inside the grid, follows only existing connections, visits no cell
    # twice and is a shortest route between its endpoints; endpoints distinct unless the options allow otherwise; options honoured
    "C03.grid": f"{_M0}.connection_list.shape == (2, grid_shape[0], grid_shape[1]) and wf({_M0})",
    "C03.nonempty": f"nrows({_P}) >= 1",
    "C03.in-grid": f"forall(lambda k: in_grid({_M0}, {_P}[k]), (0, nrows({_P})))",
    "C03.along-connections": f"forall(lambda k: edge({_M0}, {_P}[k], {_P}[k + 1]), (0, nrows({_P}) - 1))",
    "C03.simple": f"distinct_rows({_P})",
    "C03.shortest": f"nrows({_P}) - 1 == dist({_M0}, {_PS}, {_PE})",
    "C03.allowed_start": f"allowed_start is None or exists(lambda t: allowed_start[t][0] == {_PS}[0] and allowed_start[t][1] == {_PS}[1], (0, len(allowed_start)))",
    "C03.allowed_end": f"allowed_end is None or exists(lambda t: allowed_end[t][0] == {_PE}[0] and allowed_end[t][1] == {_PE}[1], (0, len(allowed_end)))",
    "C03.endpoints_not_equal": f"implies(endpoints_not_equal, not ({_PS}[0] == {_PE}[0] and {_PS}[1] == {_PE}[1]))",
    "C03.distinct-by-default": "implies(allowed_start is None and allowed_end is None and not deadend_start and not deadend_end,"
    f" not ({_PS}[0] == {_PE}[0] and {_PS}[1] == {_PE}[1]))",
}
_OPTS = dict(allowed_start=COORDS, allowed_end=COORDS, deadend_start=T.Bool, deadend_end=T.Bool, endpoints_not_equal=T.Bool)


@contract(L, "item_dfs")
class item_dfs:
    """Lemma C03.item (depth-first generator, every argument combination): generator contract + metadata truth + endpoint selection + solver
    give a correctly solved maze - a pure consequence of the callees' contracts"""
    params = dict(CG.gen_dfs.params, **_OPTS)
    params.pop("lattice_dim")
    requires = CG.gen_dfs.requires + ["grid_shape[0] > 1 and grid_shape[1] > 1"]
    lemma_after = {"maze = LatticeMazeGenerators.gen_dfs(": ["reach_common(maze, maze.generation_meta['start_coord'])"]}
    ensures = dict(_ITEM)
    raises = {"ValueError": None}
    props = ["C03"]


@contract(L, "item_wilson")
class item_wilson:
    params = dict(grid_shape=CG.GRID_SHAPE, **_OPTS)
    requires = ["grid_shape[0] > 1 and grid_shape[1] > 1"]
    # (the clauses of gen_wilson that speak about its ghost root are not visible to callers)
    uses_ensures = {"LatticeMazeGenerators.gen_wilson": [lab for lab, txt in CG.gen_wilson.ensures.items() if "final(" not in txt]}
    ensures = dict(_ITEM)
    raises = {"ValueError": None}
    props = ["C03"]


@contract(L, "item_prim")
class item_prim:
    params = dict(CG.gen_prim.params, **_OPTS)
    params.pop("lattice_dim")
    requires = CG.gen_prim.requires + ["grid_shape[0] > 1 and grid_shape[1] > 1"]
    lemma_after = {"maze = LatticeMazeGenerators.gen_prim(": ["reach_common(maze, maze.generation_meta['start_coord'])"]}
    ensures = dict(_ITEM)
    raises = {"ValueError": None}
    props = ["C03"]


@contract(L, "item_percolation")
class item_percolation:
    params = dict(CG.gen_percolation.params, **_OPTS)
    params.pop("lattice_dim")
    requires = CG.gen_percolation.requires + ["grid_shape[0] > 1 and grid_shape[1] > 1"]
    ensures = dict(_ITEM)
    raises = {"ValueError": None}
    props = ["C03"]


@contract(L, "item_dfs_percolation")
class item_dfs_percolation:
    params = dict(CG.gen_dfs_percolation.params, **_OPTS)
    params.pop("lattice_dim")
    requires = CG.gen_dfs_percolation.requires + ["grid_shape[0] > 1 and grid_shape[1] > 1"]
    lemma_after = {"maze = LatticeMazeGenerators.gen_dfs_percolation(": ["reach_common(maze, maze.generation_meta['start_coord'])"]}
    uses_ensures = {"LatticeMazeGenerators.gen_dfs_percolation": [lab for lab, txt in CG.gen_dfs_percolation.ensures.items() if "final(" not in txt]}
    ensures = dict(_ITEM)
    raises = {"ValueError": None}
    props = ["C03"]


# ------------------------------------------------------------------------------------------- solving a targeted maze (C02 / C20: the true path of a plotted targeted maze)
import contracts.serialization as CS  # noqa: E402  (SolvedMaze.__init__)

TARGETED = T.RecT("TargetedLatticeMaze", connection_list=CONN3, start_pos=T.Coord, end_pos=T.Coord, generation_meta=T.Const(None))


@contract(F, "SolvedMaze.from_targeted_lattice_maze")
class from_targeted_lattice_maze:
    """solving a targeted maze: the result has the same connection structure and endpoints and carries a SHORTEST start-end path along connections
    (ValueError exactly when the end is not reachable) - the composition of the solver's contract and SolvedMaze.__init__'s"""
    params = dict(cls=T.ClassT(F, "SolvedMaze"), targeted_lattice_maze=TARGETED, solution=T.Const(None))
    requires = ["in_grid(targeted_lattice_maze, targeted_lattice_maze.start_pos)", "in_grid(targeted_lattice_maze, targeted_lattice_maze.end_pos)"]
    lets = dict(m="targeted_lattice_maze", a="targeted_lattice_maze.start_pos", b="targeted_lattice_maze.end_pos")
    ensures = {
        "C02.solve.structure": "same_grid(result.connection_list, m.connection_list)",
        "C02.solve.ends": "result.start_pos[0] == a[0] and result.start_pos[1] == a[1] and result.end_pos[0] == b[0] and result.end_pos[1] == b[1]",
        "C02.solve.path": "result.solution[0][0] == a[0] and result.solution[0][1] == a[1]"
        " and result.solution[result.solution.shape[0] - 1][0] == b[0] and result.solution[result.solution.shape[0] - 1][1] == b[1]"
        " and forall(lambda k: edge(m, result.solution[k], result.solution[k + 1]), (0, result.solution.shape[0] - 1))",
        "C02.solve.shortest": "result.solution.shape[0] - 1 == dist(m, a, b)",
    }
    raises = {"ValueError": "not reach(m, a, b)"}
    result = CS.SOLVED
    props = ["C02", "C20"]


@contract(F, "SolvedMaze.from_lattice_maze")
class solved_from_lattice_maze:
    """what the item helper calls: a SolvedMaze with the maze's connection structure and the given solution, its start / end the two ends of the solution;
    ValueError exactly when the solution is empty or an end lies outside the grid (SolvedMaze.__init__'s contract)"""
    params = dict(cls=T.ClassT(F, "SolvedMaze"), lattice_maze=T.RecT("LatticeMaze", connection_list=CONN3, generation_meta=T.Const(None)),
                  solution=T.GridT("int", [None, 2]))
    lets = dict(m="lattice_maze", n="solution.shape[0]")
    ensures = {
        "C03.solved.structure": "same_grid(result.connection_list, m.connection_list) and same_grid(result.solution, solution)",
        "C03.solved.ends": "n >= 1 and result.start_pos[0] == solution[0][0] and result.start_pos[1] == solution[0][1]"
        " and result.end_pos[0] == solution[n - 1][0] and result.end_pos[1] == solution[n - 1][1]",
        "C03.solved.ends-in-grid": "in_grid(m, result.start_pos) and in_grid(m, result.end_pos)",
    }
    raises = {"ValueError": "n == 0 or not in_grid(m, solution[0]) or not in_grid(m, solution[n - 1])"}
    result = CS.SOLVED
    props = ["C03"]


@contract(F, "TargetedLatticeMaze.from_lattice_maze")
class targeted_from_lattice_maze:
    """what generate_random_path-free callers and the 'targeted' conversion use: the maze's connection structure with the given ends;
    ValueError exactly when an end lies outside the grid (the real __post_init__ is executed inside)"""
    params = dict(cls=T.ClassT(F, "TargetedLatticeMaze"), lattice_maze=T.RecT("LatticeMaze", connection_list=CONN3, generation_meta=T.Const(None)),
                  start_pos=T.Coord, end_pos=T.Coord)
    lets = dict(m="lattice_maze")
    ensures = {
        "C09.targeted.structure": "same_grid(result.connection_list, m.connection_list)",
        "C09.targeted.ends": "result.start_pos[0] == start_pos[0] and result.start_pos[1] == start_pos[1]"
        " and result.end_pos[0] == end_pos[0] and result.end_pos[1] == end_pos[1]",
        "C09.targeted.ends-in-grid": "in_grid(m, result.start_pos) and in_grid(m, result.end_pos)",
    }
    raises = {"ValueError": "not in_grid(m, start_pos) or not in_grid(m, end_pos)"}
    result = TARGETED
    props = ["C09"]
