"""C13 - all graph queries on a maze agree with its connection structure."""
ID = "C13"
LEVEL = "proof"
LEVEL_TEXT = ("Unbounded proof, function by function: each graph view (pairwise connectivity, neighbour list, degrees, "
              "connected component, path validation, heuristic) has a postcondition against one definition of edge()/reach() and every "
              "obligation generated from the current source is discharged by z3 for all grids, cells and connection structures. "
              "The batch edge test (is_connection), from_adj_list (bits = exactly the rows' edges, size = max index + 1) and the forking / path-following partition of the solution "
              "(exactly the solution indices and cells, in order, with more than one onward choice at an end and more than two elsewhere; the two lists are complementary) are proved as well, and so is get_nodes (entry k is the cell (k // C, k % C): every cell once, row-major; np.meshgrid / ravel / np.vstack / .T library contracts). "
              "The adjacency-list view is proved too: connection_list_to_adj_list (the np.ndindex loop with a counting invariant: row number = number of True cells before the cell in row-major order; ghost list of the cells' positions) "
              "returns as many rows as there are connections, every row a connection of the maze, every connection in some row and none in two, lesser endpoint first unless shuffle_d1, for any draw of np.random.rand and any permutation "
              "np.random.shuffle applies (grids up to 127x127: int8 coordinates); and the lemma adj_list_roundtrip - from_adj_list(as_adj_list(m)) has the identical connection structure whenever m is square and its last row or column "
              "occurs in some connection - follows from the two contracts. The bounded stand-in (all graphs up to 2x3, sampled/all 3x3, random larger) stays as a cross-check, labelled bounded.")
LEVEL_NOTE = ("Trusted: the pyvc encoding of Python/numpy, z3; lemma reach_induction (least-fixed-point principle); row-major index algebra in 2 and 3 dimensions (lemmas/Unravel.lean); count(g) = number of True cells = row-major prefix sum of the indicator (definition of the ghost count); np.random.shuffle permutes rows; np.ndindex is row-major; list(set) enumeration contract; "
              "numpy int64 treated as mathematical integers; partial correctness (no termination).")
TECHNIQUE = "contract-based deductive verification of the real functions (AST-derived VCs, z3) + bounded run-time comparison with an independent spec"
CONTRACT_MODULES = ["contracts.lattice_maze", "contracts.token_utils", "contracts.paths", "contracts.adjlist"]
F = "maze_dataset/maze/lattice_maze.py"
PROVE = [
    ("maze_dataset/token_utils.py", "connection_list_to_adj_list"),
    ("/verif/contracts/lemmas_src.py", "adj_list_roundtrip"),
    (F, "LatticeMaze.get_nodes"),
    (F, "LatticeMaze.heuristic"),
    (F, "LatticeMaze.nodes_connected"),
    (F, "LatticeMaze.get_coord_neighbors"),
    (F, "LatticeMaze.is_valid_path"),
    (F, "LatticeMaze.coord_degrees"),
    (F, "LatticeMaze.gen_connected_component_from"),
    (F, "LatticeMaze.from_adj_list"),
    ("maze_dataset/token_utils.py", "is_connection"),
    (F, "SolvedMaze.get_solution_forking_points"),
    (F, "SolvedMaze.get_solution_path_following_points"),
]
ASSUMPTIONS = [
    "leading dimension of connection_list is the constant 2 (type ConnectionList)",
    "coord_degrees is specified for well-formed mazes only (the guarantee of C01)",
]
EXPLANATION = "every graph view has `ensures` against one definition of edge(); see DESIGN.md C13"


def run(run):
    from props._std import run_lean

    run_lean(run)
    run.prove(PROVE)
    from bounded import C13 as B

    run.bounded.extend(B.run(run.tier, run.seed))
