"""Sidecar contracts for maze_dataset/dataset/collected_dataset.py (C16)."""
from pyvc.contracts import contract, Loop, REGISTRY
from pyvc import tys as T

F = "maze_dataset/dataset/collected_dataset.py"
MD = "maze_dataset/dataset/maze_dataset.py"
REGISTRY.class_files.update({"MazeDatasetCollection": F, "MazeDataset": MD})
REGISTRY.inlinable.update({(MD, "MazeDataset.__len__"), (MD, "MazeDataset.__getitem__"), (MD, "MazeDataset.update_self_config")})

# a maze is identified by an opaque identity `uid` ("the very maze at position i")
MAZE = T.RecT("SolvedMaze", uid=T.Int)
# every member carries its own configuration with its own (possibly stale) declared maze count: nothing may be read from it in place of the real length
MCFG = T.RecT("MazeDatasetConfig", n_mazes=T.Int)
DATASET = T.RecT("MazeDataset", cfg=MCFG, mazes=T.ListT(MAZE))
COLLECTION = T.RecT("MazeDatasetCollection", cfg=T.RecT("MazeDatasetCollectionConfig", maze_dataset_configs=T.ListT(MCFG)), maze_datasets=T.ListT(DATASET))

_LENS = "[len(d.mazes) for d in self.maze_datasets]"


@contract(F, "MazeDatasetCollection.dataset_lengths")
class dataset_lengths:
    params = dict(self=COLLECTION)
    ensures = {
        "C16.lengths.len": "len(result) == len(self.maze_datasets)",
        "C16.lengths": "forall(lambda d: result[d] == len(self.maze_datasets[d].mazes), (0, len(self.maze_datasets)))",
    }
    inline = True
    props = ["C16"]


_MONO = f"psum_monotone({_LENS})"


@contract(F, "MazeDatasetCollection.__len__")
class coll_len:
    params = dict(self=COLLECTION)
    entry_lemmas = [_MONO]
    ensures = {"C16.len=sum": f"result == psum({_LENS}, len(self.maze_datasets))", "C16.len>=0": "result >= 0"}
    result = T.Nat
    inline = True  # callers inline it (the body is its own specification)
    props = ["C16"]


@contract(F, "MazeDatasetCollection.dataset_cum_lengths")
class dataset_cum_lengths:
    params = dict(self=COLLECTION)
    ensures = {
        "C16.cum.shape": "result.shape == (len(self.maze_datasets),)",
        "C16.cum": f"forall(lambda d: result[d] == psum({_LENS}, d + 1), (0, len(self.maze_datasets)))",
    }
    inline = True
    props = ["C16"]


@contract(F, "MazeDatasetCollection.__getitem__")
class coll_getitem:
    params = dict(self=COLLECTION, index=T.Int)
    requires = ["0 <= index", f"index < psum({_LENS}, len(self.maze_datasets))"]
    entry_lemmas = [_MONO]
    ensures = {
        # the i-th item is the very maze at position i of the concatenation of the members in order
        "C16.getitem": "exists(lambda d, k: 0 <= k and k < len(self.maze_datasets[d].mazes)"
        f" and index == psum({_LENS}, d) + k and result.uid == self.maze_datasets[d].mazes[k].uid, (0, len(self.maze_datasets)), None)",
    }
    props = ["C16"]


@contract(F, "MazeDatasetCollection.mazes")
class coll_mazes:
    params = dict(self=COLLECTION)
    ensures = {
        "C16.mazes.len": f"len(result) == psum({_LENS}, len(self.maze_datasets))",
        "C16.mazes": "forall(lambda d, k: implies(0 <= k and k < len(self.maze_datasets[d].mazes),"
        f" result[psum({_LENS}, d) + k].uid == self.maze_datasets[d].mazes[k].uid), (0, len(self.maze_datasets)), None)",
    }
    inline = True
    props = ["C16"]


# ------------------------------------------------------------------------------------------- update_self_config
DATASET_C, COLLECTION_C = DATASET, COLLECTION
_ND = "len(self.maze_datasets)"
_KEPT = ("len(self.maze_datasets) == len(entry(self).maze_datasets) and len(self.cfg.maze_dataset_configs) == len(entry(self).cfg.maze_dataset_configs)"
         " and forall(lambda j: len(self.maze_datasets[j].mazes) == len(entry(self).maze_datasets[j].mazes)"
         " and forall(lambda t: self.maze_datasets[j].mazes[t].uid == entry(self).maze_datasets[j].mazes[t].uid, (0, len(self.maze_datasets[j].mazes))), (0, len(self.maze_datasets)))")


@contract(F, "MazeDatasetCollection.update_self_config")
class coll_update_self_config:
    """after update_self_config the reported maze count is the collection's length, every member's own configuration and every member configuration the
    collection holds report that member's length, and no maze moved.  Value semantics (A-alias): the member configurations of the collection and the
    members' own configurations are treated as separate objects - the case in which the 2e1b455 defect showed; when they are shared both writes coincide."""
    params = dict(self=COLLECTION_C)
    requires = ["len(self.cfg.maze_dataset_configs) == len(self.maze_datasets)"]
    modifies = ["self"]
    ensures = {
        "C16.update.members": "forall(lambda j: self.maze_datasets[j].cfg.n_mazes == len(self.maze_datasets[j].mazes)"
        " and self.cfg.maze_dataset_configs[j].n_mazes == len(self.maze_datasets[j].mazes), (0, len(self.maze_datasets)))",
        "C16.update.count": "self.cfg.n_mazes == len(self)",
        "C16.update.mazes-kept": _KEPT.replace("entry(self)", "old(self)"),
    }
    loops = {
        0: Loop(head="for dataset in self.maze_datasets", havoc=dict(self=COLLECTION_C),
                inv={"kept": _KEPT,
                     "configs-untouched": "forall(lambda j: self.cfg.maze_dataset_configs[j].n_mazes == entry(self).cfg.maze_dataset_configs[j].n_mazes, (0, len(self.cfg.maze_dataset_configs)))",
                     "done": "forall(lambda j: self.maze_datasets[j].cfg.n_mazes == len(self.maze_datasets[j].mazes), (0, _k))"}),
        1: Loop(head="for config, dataset in zip(self.cfg.maze_dataset_configs, self.maze_datasets)", havoc=dict(self=COLLECTION_C),
                inv={"kept": _KEPT,
                     "members-stay": "forall(lambda j: self.maze_datasets[j].cfg.n_mazes == len(self.maze_datasets[j].mazes), (0, len(self.maze_datasets)))",
                     "done": "forall(lambda j: self.cfg.maze_dataset_configs[j].n_mazes == len(self.maze_datasets[j].mazes), (0, _k))"}),
    }
    exit_lemmas = ["psum_congruence([c.n_mazes for c in self.cfg.maze_dataset_configs], [len(d.mazes) for d in self.maze_datasets], len(self.maze_datasets))"]
    props = ["C16"]


CD_ = "maze_dataset/dataset/collected_dataset.py"
_MCFG = T.ObjT("MazeDatasetConfig")  # a member configuration is an opaque object: `c.serialize()` is an unknown function of the receiver c


@contract(CD_, "MazeDatasetCollectionConfig.maze_dataset_configs@serialization_fn")
class member_configs_serialization_fn:
    """C05 (collections: member configurations survive serialization, in order): the serializer lambda of the field (read as def f(configs): return <expression>)
    stores one entry per member configuration, in member order, each being that member's own `serialize()`."""
    params = dict(configs=T.ListT(_MCFG))
    ensures = {
        "C05.collection.member-configs.count": "len(result) == len(configs)",
        "C05.collection.member-configs.in-order": "forall(lambda k: result[k] == configs[k].serialize(), (0, len(configs)))",
    }
    options = dict(no_concrete=True)
    props = ["C05"]


@contract(CD_, "MazeDatasetCollectionConfig.maze_dataset_configs@loading_fn")
class member_configs_loading_fn:
    """C05: the loader lambda restores one member configuration per stored entry, in the stored order, each through `MazeDatasetConfig.load` of that entry
    (`load` is generated by the muutils decorator: an unknown pure function here; its own round trip is C18's business)."""
    params = dict(data=T.PyDictT(maze_dataset_configs=T.ListT(T.ObjT("serialized"))), MazeDatasetConfig=T.ObjT("class MazeDatasetConfig"))  # `MazeDatasetConfig.load(x)`: an unknown function of (class, x)
    ensures = {
        "C05.collection.member-configs.loaded-count": "len(result) == len(data['maze_dataset_configs'])",
        "C05.collection.member-configs.loaded-in-order": "forall(lambda k: result[k] == MazeDatasetConfig.load(data['maze_dataset_configs'][k]), (0, len(result)))",
    }
    options = dict(no_concrete=True)
    props = ["C05"]
