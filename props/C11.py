"""C11 - the on-disk dataset cache never serves wrong data."""
ID = "C11"
LEVEL = "exploration"
LEVEL_TEXT = 'Bounded fault experiments on the real from_config: truncations at a dense stride, single-byte corruptions, empty/missing files, foreign configurations under the requested name, and an interruption at every low-level write of save; each time the request must regenerate or raise, never serve other data, and leave a loadable file.'
LEVEL_NOTE = 'Byte-level fault enumeration is a different technique; it stands in here for the adversarial-read contract proof planned in DESIGN.md.'
TECHNIQUE = "bounded stand-in of the contract-based verifier: run-time checking of the real code against an independent executable statement over an enumerated scope (no function of this property is in the verified subset yet)"
CONTRACT_MODULES = []
PROVE = []
ASSUMPTIONS = []
EXPLANATION = "see DESIGN.md C11"


def run(run):
    from props._std import run_bounded

    if PROVE:
        run.prove(PROVE)
    run_bounded(run, "C11")
