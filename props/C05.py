"""C05 - datasets survive serialization and disk round trips unchanged."""
ID = "C05"
LEVEL = "exploration"
LEVEL_TEXT = 'Bounded: round trips through all three formats, all threshold settings and real .zanj files for enumerated datasets (all generators, mixed solution lengths incl. length-1/2, with/without metadata), and collections member by member; arrays compared with np.array_equal.'
LEVEL_NOTE = 'Trusted: muutils/zanj internals. Configuration equality is judged on the configuration the dataset has after serialize() returned (minimal formats collect metadata in place: documented side effect).'
TECHNIQUE = "bounded stand-in of the contract-based verifier: run-time checking of the real code against an independent executable statement over an enumerated scope (no function of this property is in the verified subset yet)"
CONTRACT_MODULES = []
PROVE = []
ASSUMPTIONS = []
EXPLANATION = "see DESIGN.md C05"


def run(run):
    from props._std import run_bounded

    if PROVE:
        run.prove(PROVE)
    run_bounded(run, "C05")
