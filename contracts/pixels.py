"""Sidecar contracts for the pixel renderings in maze_dataset/maze/lattice_maze.py (C10, used by C17)."""
from pyvc.contracts import contract, Loop
from pyvc import tys as T
import contracts.lattice_maze  # noqa: F401

F = "maze_dataset/maze/lattice_maze.py"

# the black/white picture of a maze, from the statement: every cell pixel open; the pixel between two vertically /
# horizontally adjacent cells open exactly when they are connected; everything else wall
_CELL = "(p % 2 == 1 and q % 2 == 1)"
_DOWN = "(p % 2 == 0 and p >= 2 and q % 2 == 1 and {lim_d} and self.connection_list[0, p // 2 - 1, (q - 1) // 2])"
_RIGHT = "(p % 2 == 1 and q % 2 == 0 and q >= 2 and {lim_r} and self.connection_list[1, (p - 1) // 2, q // 2 - 1])"


def _pic(lim_d="True", lim_r="True"):
    return f"forall(lambda p, q: pixel_grid[p, q] == ({_CELL} or {_DOWN.format(lim_d=lim_d)} or {_RIGHT.format(lim_r=lim_r)}), (0, 2 * R + 1), (0, 2 * C + 1))"


_SHAPE = "pixel_grid.shape == (2 * R + 1, 2 * C + 1)"
PIX = T.GridT("bool", [None, None])


@contract(F, "LatticeMaze._as_pixels_bw")
class as_pixels_bw:
    params = dict(self=T.Maze())
    lets = dict(R="self.connection_list.shape[1]", C="self.connection_list.shape[2]")
    ensures = {
        "C10.bw.shape": "result.shape == (2 * R + 1, 2 * C + 1)",
        "C10.bw.picture": _pic().replace("pixel_grid[", "result["),
    }
    loops = {
        0: Loop(head="for i, row in enumerate(self.connection_list[0])", havoc=dict(pixel_grid=PIX),
                inv={"shape": _SHAPE, "rows-done": _pic(lim_d="p // 2 - 1 < _k", lim_r="False")}),
        1: Loop(head="for j, connected in enumerate(row)", havoc=dict(pixel_grid=PIX),
                inv={"shape": _SHAPE, "row-part": _pic(lim_d="(p // 2 - 1 < i or (p // 2 - 1 == i and (q - 1) // 2 < _k))", lim_r="False")}),
        2: Loop(head="for i, row in enumerate(self.connection_list[1])", havoc=dict(pixel_grid=PIX),
                inv={"shape": _SHAPE, "rows-done": _pic(lim_r="(p - 1) // 2 < _k")}),
        3: Loop(head="for j, connected in enumerate(row)", havoc=dict(pixel_grid=PIX),
                inv={"shape": _SHAPE, "row-part": _pic(lim_r="((p - 1) // 2 < i or ((p - 1) // 2 == i and q // 2 - 1 < _k))")}),
    }
    result = lambda env: T.GridT("bool", [2 * env["R"] + 1, 2 * env["C"] + 1])
    props = ["C10", "C17"]


@contract(F, "LatticeMaze._from_pixel_grid_bw")
class from_pixel_grid_bw:
    params = dict(cls=T.Const(None), pixel_grid=T.GridT("bool", [None, None], min_dim=3))
    lets = dict(H="pixel_grid.shape[0]", W="pixel_grid.shape[1]")
    requires = ["H % 2 == 1", "W % 2 == 1"]
    ensures = {
        "C10.frombw.shape": "result[0].shape == (2, H // 2, W // 2) and result[1][0] == H // 2 and result[1][1] == W // 2",
        "C10.frombw.down": "forall(lambda i, j: result[0][0, i, j] == pixel_grid[2 * i + 2, 2 * j + 1], (0, H // 2), (0, W // 2))",
        "C10.frombw.right": "forall(lambda i, j: result[0][1, i, j] == pixel_grid[2 * i + 1, 2 * j + 2], (0, H // 2), (0, W // 2))",
    }
    result = lambda env: T.TupleT(T.GridT("bool", [2, env["H"] // 2, env["W"] // 2]), T.TupleT(T.Int, T.Int))
    props = ["C10"]
