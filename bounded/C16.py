"""Bounded stand-in for C16: a MazeDatasetCollection is exactly the concatenation of its members.

Every vector of member lengths over {0,1,2,3} of length 1..5 (quick: 1..4) is built from tiny hand-made,
individually identifiable SolvedMaze objects (member grid sizes differ) and the real collection is
compared - by object identity - against the plain Python concatenation of the member lists.
Labelled bounded, never counted as proved."""
from __future__ import annotations

import itertools
import time
import traceback
import warnings

import numpy as np

from vlib.runner import BoundedResult

from bounded._common import Capped

# how the member configs relate to the configs listed in the collection config
#   shared         the very same config objects, declared n_mazes == actual length
#   shared-stale   the very same config objects, declared n_mazes is wrong (length+2) until update_self_config
#   copies         equal but distinct config objects (what MazeDataset.generate produces), declared counts right
#   copies-stale   equal but distinct config objects, declared counts wrong   -> separate key, see run()
VARIANTS = ("shared", "shared-stale", "copies", "copies-stale")


def _tiny_maze(grid_n: int, ident: int):
    """a grid_n x grid_n solved maze whose connection bits spell `ident` in binary (identifiable by content as well)"""
    from maze_dataset.maze import SolvedMaze

    conn = np.zeros((2, grid_n, grid_n), dtype=np.bool_)
    conn[1, 0, 0] = True  # (0,0)-(0,1): the two-cell solution below is a real path
    slots = [(0, i, j) for i in range(grid_n - 1) for j in range(grid_n)] + [(1, i, j) for i in range(grid_n) for j in range(grid_n - 1) if (i, j) != (0, 0)]
    for k, s in enumerate(slots):
        if (ident >> k) & 1:
            conn[s] = True
    return SolvedMaze(connection_list=conn, solution=np.array([[0, 0], [0, 1]]))


def build(lengths, variant, grid_rot=0):
    from maze_dataset.dataset.collected_dataset import MazeDatasetCollection, MazeDatasetCollectionConfig
    from maze_dataset.dataset.maze_dataset import MazeDataset, MazeDatasetConfig

    stale = variant.endswith("stale")
    members, cfgs_listed, concat = [], [], []
    ident = 0
    for k, n in enumerate(lengths):
        g = 2 + (k + grid_rot) % 3  # neighbouring members always differ in grid size
        declared = n + 2 if stale else n
        cfg = MazeDatasetConfig(name=f"member{k}", grid_n=g, n_mazes=declared)
        mazes = []
        for _ in range(n):
            mazes.append(_tiny_maze(g, ident))
            ident += 1
        members.append(MazeDataset(cfg, mazes=mazes))
        concat.extend(mazes)
        cfgs_listed.append(cfg if variant.startswith("shared") else MazeDatasetConfig(name=f"member{k}", grid_n=g, n_mazes=declared))
    arg = list(members)
    coll = MazeDatasetCollection(
        cfg=MazeDatasetCollectionConfig(name="coll", maze_dataset_configs=cfgs_listed),
        maze_datasets=arg,
    )
    # the caller goes on using ITS OWN list (builds the next collection from it): the collection holds the members it was given, nothing more
    arg.append(MazeDataset(MazeDatasetConfig(name="later", grid_n=2, n_mazes=1), mazes=[_tiny_maze(2, 10**6)]))
    return coll, concat


def check(res, lengths, variant, grid_rot=0):
    lengths = [int(x) for x in lengths]
    inp = {"lengths": lengths, "variant": variant, "grid_rot": grid_rot}
    coll, concat = build(lengths, variant, grid_rot)
    total = sum(lengths)
    res.seen((tuple(lengths), variant, grid_rot), nontrivial=total > 0, sample=inp)
    nkey = "C16:n_mazes:unshared-config" if variant == "copies-stale" else "C16:n_mazes"
    # length
    try:
        got_len = len(coll)
    except Exception as e:  # noqa: BLE001
        res.fail("C16:len", f"len(collection) raised {type(e).__name__}: {e}", inp, repr(e))
        return
    if got_len != total:
        res.fail("C16:len", f"len(collection)={got_len}, members sum to {total}", inp, got_len)
    # per-member lengths and running totals
    try:
        dl = [int(x) for x in coll.dataset_lengths]
        cum = [int(x) for x in coll.dataset_cum_lengths]
    except Exception as e:  # noqa: BLE001
        res.fail("C16:lengths", f"dataset_lengths/cum_lengths raised {type(e).__name__}: {e}", inp, repr(e))
        dl = cum = None
    if dl is not None:
        prefix = list(itertools.accumulate(lengths))
        if dl != lengths:
            res.fail("C16:lengths", f"dataset_lengths={dl}, members have {lengths}", inp, dl)
        if cum != prefix:
            res.fail("C16:lengths", f"dataset_cum_lengths={cum}, prefix sums are {prefix}", inp, cum)
    # every valid index: identity with the i-th element of the concatenation (before and after .mazes was cached)
    for phase in ("before-mazes", "after-mazes"):
        for i in range(total):
            try:
                item = coll[i]
            except Exception as e:  # noqa: BLE001
                res.fail("C16:getitem", f"collection[{i}] raised {type(e).__name__}: {e} (lengths {lengths})", {**inp, "index": i}, repr(e))
                continue
            if item is not concat[i]:
                where = next((j for j, m in enumerate(concat) if m is item), None)
                res.fail("C16:getitem", f"collection[{i}] is element {where} of the concatenation, not element {i} (lengths {lengths})", {**inp, "index": i}, where)
        if phase == "before-mazes":
            try:
                flat = coll.mazes
            except Exception as e:  # noqa: BLE001
                res.fail("C16:mazes", f"collection.mazes raised {type(e).__name__}: {e}", inp, repr(e))
                flat = None
            if flat is not None and (len(flat) != total or any(a is not b for a, b in zip(flat, concat))):
                res.fail("C16:mazes", f"collection.mazes (len {len(flat)}) is not the concatenation of the members (len {total}) in order", inp, len(flat))
    # reported count
    if not variant.endswith("stale"):
        n0 = int(coll.cfg.n_mazes)
        if n0 != total:
            res.fail(nkey, f"cfg.n_mazes={n0} but the collection holds {total} mazes (declared counts were correct)", {**inp, "when": "before-update"}, n0)
    try:
        coll.update_self_config()
        n1 = int(coll.cfg.n_mazes)
    except Exception as e:  # noqa: BLE001
        res.fail(nkey, f"update_self_config / cfg.n_mazes raised {type(e).__name__}: {e}", {**inp, "when": "after-update"}, repr(e))
        return
    if n1 != len(coll) or n1 != total:
        res.fail(nkey, f"after update_self_config cfg.n_mazes={n1} but len(collection)={len(coll)} (lengths {lengths}, member configs: {variant})", {**inp, "when": "after-update"}, n1)
    for k, ds in enumerate(coll.maze_datasets):
        if int(ds.cfg.n_mazes) != lengths[k]:
            res.fail("C16:n_mazes", f"after update_self_config member {k} reports n_mazes={ds.cfg.n_mazes}, holds {lengths[k]}", {**inp, "when": "after-update"}, int(ds.cfg.n_mazes))
    # the items are unchanged by the update
    for i in range(total):
        try:
            if coll[i] is not concat[i]:
                res.fail("C16:getitem", f"after update_self_config collection[{i}] is no longer element {i} of the concatenation", {**inp, "index": i}, None)
        except Exception as e:  # noqa: BLE001
            res.fail("C16:getitem", f"after update_self_config collection[{i}] raised {type(e).__name__}: {e}", {**inp, "index": i}, repr(e))
    if variant in ("shared", "copies"):
        check_after_change(res, coll, concat, lengths, inp)


def check_after_change(res, coll, concat, lengths, inp):
    """multi-step history: the collection has been indexed and its flattened list has been read; now one member is replaced by a shorter
    dataset (what filtering a member does) and update_self_config() is called - everything must agree with the NEW concatenation"""
    from maze_dataset.dataset.maze_dataset import MazeDataset

    ks = [k for k, n in enumerate(lengths) if n > 0]
    if not ks:
        return
    for k, drop in ((ks[0], 1), (ks[-1], lengths[ks[-1]])):
        old = coll.maze_datasets[k]
        keep = list(old.mazes[drop:])
        coll.maze_datasets[k] = MazeDataset(old.cfg, mazes=keep)
        start = sum(len(d) for d in coll.maze_datasets[:k])
        concat = concat[:start] + keep + concat[start + len(old.mazes):]
        lengths = [len(d) for d in coll.maze_datasets]
        step = {**inp, "then": f"member {k} loses its first {drop} maze(s); update_self_config()"}
        try:
            coll.update_self_config()
            total = len(concat)
            facts = {"len": len(coll), "dataset_lengths": [int(x) for x in coll.dataset_lengths], "cum": [int(x) for x in coll.dataset_cum_lengths],
                     "n_mazes": int(coll.cfg.n_mazes), "len(mazes)": len(coll.mazes)}
            want = {"len": total, "dataset_lengths": lengths, "cum": list(itertools.accumulate(lengths)), "n_mazes": total, "len(mazes)": total}
            if facts != want:
                res.fail("C16:after-member-change:counts", f"after a member changed and update_self_config(): {facts}, expected {want}", step, facts)
            for i in range(total):
                if coll[i] is not concat[i] or coll.mazes[i] is not concat[i]:
                    res.fail("C16:after-member-change:items", f"after a member changed and update_self_config(): item {i} is not element {i} of the new concatenation", {**step, "index": i}, None)
                    break
        except Exception as e:  # noqa: BLE001
            res.fail("C16:after-member-change:raised", f"after a member changed and update_self_config(): {type(e).__name__}: {e}", step, repr(e))
            return
    # length-preserving changes (the total does not move, so nothing that only watches counts notices): the member order is reversed; then one
    # member is replaced by a dataset holding the same mazes in reverse order
    for what in ("reverse-members", "reverse-one-member"):
        if what == "reverse-members":
            if len(coll.maze_datasets) < 2:
                continue
            coll.maze_datasets.reverse()
        else:
            ks2 = [k for k, d in enumerate(coll.maze_datasets) if len(d) >= 2]
            if not ks2:
                continue
            old = coll.maze_datasets[ks2[0]]
            coll.maze_datasets[ks2[0]] = MazeDataset(old.cfg, mazes=list(old.mazes[::-1]))
        concat = [m for d in coll.maze_datasets for m in d.mazes]
        lengths = [len(d) for d in coll.maze_datasets]
        step = {**inp, "then": f"{what} (total length unchanged); update_self_config()"}
        try:
            coll.update_self_config()
            total = len(concat)
            facts = {"len": len(coll), "dataset_lengths": [int(x) for x in coll.dataset_lengths], "cum": [int(x) for x in coll.dataset_cum_lengths],
                     "n_mazes": int(coll.cfg.n_mazes), "len(mazes)": len(coll.mazes)}
            want = {"len": total, "dataset_lengths": lengths, "cum": list(itertools.accumulate(lengths)), "n_mazes": total, "len(mazes)": total}
            if facts != want:
                res.fail("C16:after-member-change:counts", f"after {what} and update_self_config(): {facts}, expected {want}", step, facts)
            for i in range(total):
                if coll[i] is not concat[i] or coll.mazes[i] is not concat[i]:
                    res.fail("C16:after-member-change:items", f"after {what} and update_self_config(): item {i} is not element {i} of the new concatenation", {**step, "index": i}, None)
                    break
        except Exception as e:  # noqa: BLE001
            res.fail("C16:after-member-change:raised", f"after {what} and update_self_config(): {type(e).__name__}: {e}", step, repr(e))
            return


def run(tier, seed):
    warnings.simplefilter("ignore")
    t0 = time.time()
    max_len = 5 if tier == "thorough" else 4
    res = BoundedResult(
        "C16.collection-is-concatenation",
        rule=f"every vector of member lengths over {{0,1,2,3}} of length 1..{max_len} (zeros anywhere, repeated zeros), neighbouring members of different grid size, "
        "x 4 ways the member configs relate to the listed configs (same objects / equal copies, declared counts right / stale); "
        "the list handed to the constructor is extended by the caller afterwards (the collection must not follow it); every index 0<=i<len compared by object identity with the Python concatenation of the member lists; then (multi-step) a member is replaced by a shorter / empty dataset, then (total length unchanged) the member order is reversed and one member is replaced by its own mazes in reverse order, "
        "update_self_config() is called and everything is compared with the new concatenation; non-trivial = at least one maze; "
        "distinct by (lengths, variant)",
        exhaustive=True,
        functions=["MazeDatasetCollection.__getitem__", "MazeDatasetCollection.mazes", "MazeDatasetCollection.__len__", "MazeDatasetCollection.dataset_lengths", "MazeDatasetCollection.dataset_cum_lengths", "MazeDatasetCollection.update_self_config", "MazeDatasetCollectionConfig.n_mazes"],
    )
    capped = Capped(res)
    try:
        for L in range(1, max_len + 1):
            for lengths in itertools.product((0, 1, 2, 3), repeat=L):
                for variant in VARIANTS:
                    check(capped, lengths, variant, grid_rot=(sum(lengths) + L) % 3)
    except Exception as e:  # noqa: BLE001
        res.errors.append(f"{type(e).__name__}: {e}\n{traceback.format_exc(limit=6)}")
    res.seconds = time.time() - t0
    return [res]


def replay(check_name, inp):
    """re-run one recorded input; True iff the real collection now agrees with the concatenation on it"""
    warnings.simplefilter("ignore")
    res = BoundedResult("replay", "replay")
    check(res, inp["lengths"], inp.get("variant", "shared"), int(inp.get("grid_rot", 0)))
    for f in res.failures:
        print("  still failing:", f["key"], f["what"])
    return not res.failures
