"""Bounded stand-in for C07: legacy tokenization round-trips and agrees with its modular equivalent.

Four checks on the REAL code, each against an oracle written from the property statement:
  C07.coord-codec      (a) the coordinate codec, complete over all coordinates (i,j), 0 <= i,j < 50
  C07.maze-roundtrip   (b) as_tokens -> from_tokens (token list and one space-joined string), all three kinds of maze,
                           three legacy modes x {MazeTokenizer, MazeTokenizer(max_grid_size), TokenizationMode, modular equivalent}
                       (c) legacy and modular tokens agree up to order/orientation of adjacency entries (parsed here, not with
                           equal_except_adj_list_sequence)
  C07.dataset-as_tokens (d) MazeDataset.as_tokens == per-maze as_tokens in order, honouring limit and the join option
Mazes are never compared with `==` (C09): arrays with np.array_equal, kinds with `type(x) is ...`."""
from __future__ import annotations

import multiprocessing
import os
import random
import time
import traceback
import warnings

import numpy as np

from vlib import pyspec as S
from vlib.runner import BoundedResult

MODES = ("AOTP_UT_rasterized", "AOTP_UT_uniform", "AOTP_CTT_indexed")
VARIANTS = ("legacy", "legacy-sized", "enum", "modular")
KINDS = ("LatticeMaze", "TargetedLatticeMaze", "SolvedMaze")
WHEN = ("include", "skip", "error")
SPECIALS = ["<ADJLIST_START>", "<ADJLIST_END>", "<TARGET_START>", "<TARGET_END>", "<ORIGIN_START>", "<ORIGIN_END>",
            "<PATH_START>", "<PATH_END>", "<-->", ";", "<PADDING>"]
PER_KEY = 3  # reports kept per stable key


def _fail(res, key, what, inp, observed=None):
    cnt = res.__dict__.setdefault("_per_key", {})
    cnt[key] = cnt.get(key, 0) + 1
    if cnt[key] <= PER_KEY:
        res.fail(key, what, {**inp, "key": key}, observed)


def _exc(e):
    return f"{type(e).__name__}: {e}"[:300]


def _seed_all(s):
    """the adjacency list is shuffled with three different generators (np.random, random, generation.numpy_rng)"""
    from maze_dataset.generation import numpy_rng

    s = int(s) % (2**32)
    random.seed(s)
    np.random.seed(s)
    numpy_rng.bit_generator.state = np.random.PCG64(s).state


def _tokenizer(mode, variant, grid_n):
    from maze_dataset.tokenization import MazeTokenizer, MazeTokenizerModular, TokenizationMode

    tm = TokenizationMode[mode]
    if variant == "legacy":
        return MazeTokenizer(tokenization_mode=tm, max_grid_size=None)
    if variant == "legacy-sized":
        return MazeTokenizer(tokenization_mode=tm, max_grid_size=int(grid_n))
    if variant == "enum":
        return tm
    if variant == "modular":
        return MazeTokenizerModular.from_legacy(tm)
    raise ValueError(variant)


# ====================================================================== (a) coordinate codec
def _tupled(xs):
    return [tuple(int(v) for v in x) if not isinstance(x, str) else x for x in xs]


def _call(fn, *a, **k):
    """-> ('ok', value) | ('raise', exception)"""
    try:
        return "ok", fn(*a, **k)
    except Exception as e:  # noqa: BLE001
        return "raise", e


def check_codec_coord(res, i, j):
    """everything the library offers to encode / decode the single coordinate (i,j), alone and between special tokens"""
    from maze_dataset import token_utils as TU
    from maze_dataset.tokenization import MazeTokenizer, MazeTokenizerModular, TokenizationMode

    c = (i, j)
    inp = {"case": "codec", "coord": [i, j]}
    ut = "(%d,%d)" % c  # documented: (i,j) -> "(i,j)"
    ctt = ["(", "%d" % i, ",", "%d" % j, ")"]  # documented: (i,j) -> "(", "i", ",", "j", ")"
    A, B = SPECIALS[(i + j) % 11], SPECIALS[(3 * i + 7 * j + 1) % 11]  # every special token occurs as a neighbour of some coordinate
    other = (j, i)

    def expect(key, what, got, want):
        if got[0] == "raise":
            _fail(res, key, f"{what} raised {_exc(got[1])}", inp, _exc(got[1]))
            return False
        v = got[1]
        if isinstance(want, list) and isinstance(v, (list, tuple)):
            v = _tupled(v)
        if v != want or type(got[1]) is not type(want):
            _fail(res, key, f"{what} == {got[1]!r}, expected {want!r}", inp, repr(got[1])[:300])
            return False
        return True

    def expect_raises(key, what, got, exc_type=ValueError):
        if got[0] == "ok":
            _fail(res, key, f"{what} returned {got[1]!r}; {exc_type.__name__} expected", inp, repr(got[1])[:300])
        elif not isinstance(got[1], exc_type):
            _fail(res, key, f"{what} raised {_exc(got[1])}; {exc_type.__name__} expected", inp, _exc(got[1]))

    forms = [c, [i, j], (np.int8(i), np.int8(j)), np.array([i, j], dtype=np.int8), np.array([i, j])]
    # ---- unique-token form
    res.seen(("codec", "UT", i, j), nontrivial=True, sample={"coord": [i, j], "UT": ut, "CTT": ctt} if (i, j) == (12, 7) else None)
    for f in forms:
        expect("C07:codec:UT", f"_coord_to_strings_UT({f!r})", _call(TU._coord_to_strings_UT, f), [ut])
    expect("C07:codec:UT", f"str_is_coord({ut!r})", _call(TU.str_is_coord, ut), True)
    expect("C07:codec:UT", f"str_is_coord({' ' + ut + ' '!r})", _call(TU.str_is_coord, " " + ut + " "), True)
    expect("C07:codec:UT", f"coord_str_to_tuple({ut!r})", _call(TU.coord_str_to_tuple, ut), c)
    expect("C07:codec:UT", f"coord_str_to_tuple_noneable({ut!r})", _call(TU.coord_str_to_tuple_noneable, ut), c)
    got = _call(TU.coord_str_to_coord_np, ut)
    if got[0] == "raise" or not (isinstance(got[1], np.ndarray) and got[1].tolist() == [i, j]):
        _fail(res, "C07:codec:UT", f"coord_str_to_coord_np({ut!r}) -> {got[1]!r}", inp, repr(got[1]))
    expect("C07:codec:split", f"coords_string_split_UT({ut!r})", _call(TU.coords_string_split_UT, ut), [ut])
    # ---- five-token form
    res.seen(("codec", "CTT", i, j), nontrivial=True)
    for f in forms:
        expect("C07:codec:indexed", f"_coord_to_strings_indexed({f!r})", _call(TU._coord_to_strings_indexed, f), ctt)
    cj = " ".join(ctt)
    expect("C07:codec:indexed", f"str_is_coord({cj!r})", _call(TU.str_is_coord, cj), True)
    expect("C07:codec:indexed", f"coord_str_to_tuple({cj!r})", _call(TU.coord_str_to_tuple, cj), c)
    got = _call(TU.coords_string_split_UT, cj)
    if got[0] == "raise" or len(got[1]) != 1 or _call(TU.coord_str_to_tuple, got[1][0]) != ("ok", c):
        _fail(res, "C07:codec:split", f"coords_string_split_UT({cj!r}) -> {got[1]!r} is not one piece that decodes to {c}", inp, repr(got[1]))
    # ---- pieces of the five-token form and special tokens are not coordinates
    for s in SPECIALS + ["(", ",", ")", "%d" % i]:
        expect("C07:codec:str_is_coord", f"str_is_coord({s!r})", _call(TU.str_is_coord, s), False)
        expect("C07:codec:str_is_coord", f"coord_str_to_tuple_noneable({s!r})", _call(TU.coord_str_to_tuple_noneable, s), None)
    # ---- list-level codec, alone and in context, for the bare functions, the legacy tokenizers and the modular equivalents
    plain = [c]
    mixed = [A, c, B, other, c, A]
    enc_funcs = {"UT": (TU._coord_to_strings_UT, lambda x: ["(%d,%d)" % x]), "CTT": (TU._coord_to_strings_indexed, lambda x: ["(", "%d" % x[0], ",", "%d" % x[1], ")"])}
    encoders = []  # (name, callable(coords, when) -> tokens, my encoder, decoder callable(text, when), key)
    for nm, (f, mine) in enc_funcs.items():
        encoders.append((f"coords_to_strings[{nm}]", (lambda coords, w, f=f: TU.coords_to_strings(coords, f, w)), mine, (lambda text, w: TU.strings_to_coords(text, w)), "C07:codec:" + ("UT" if nm == "UT" else "indexed")))
    for mode in MODES:
        lt = MazeTokenizer(tokenization_mode=TokenizationMode[mode])
        mine = enc_funcs["CTT" if "CTT" in mode else "UT"][1]
        encoders.append((f"MazeTokenizer[{mode}]", (lambda coords, w, lt=lt: lt.coords_to_strings(coords, w)), mine, (lambda text, w, lt=lt: lt.strings_to_coords(text, w)), "C07:codec:legacy-tokenizer"))
        mt = MazeTokenizerModular.from_legacy(TokenizationMode[mode])
        encoders.append((f"from_legacy({mode})", (lambda coords, w, mt=mt: mt.coords_to_strings(coords) if w is None else None), mine, (lambda text, w, mt=mt: mt.strings_to_coords(text, w)), "C07:codec:modular-tokenizer"))
    for name, enc, mine, dec, key in encoders:
        modular = name.startswith("from_legacy")
        want_plain = mine(c)
        if modular:
            expect(key, f"{name}.coords_to_strings({plain})", _call(enc, plain, None), want_plain)
            expect(key, f"{name}.coords_to_strings(np coords)", _call(enc, [np.array(c, dtype=np.int8), np.array(other)], None), mine(c) + mine(other))
        for w in WHEN:
            if not modular:
                expect(key, f"{name}({plain}, {w!r})", _call(enc, plain, w), want_plain)
                g = _call(enc, mixed, w)
                if w == "include":
                    expect(key, f"{name}({mixed}, 'include')", g, [A] + mine(c) + [B] + mine(other) + mine(c) + [A])
                elif w == "skip":
                    expect(key, f"{name}({mixed}, 'skip')", g, mine(c) + mine(other) + mine(c))
                else:
                    expect_raises(key, f"{name}({mixed}, 'error')", g)
            # decoding: token list and ONE space-joined string
            tl_plain = want_plain
            tl_mixed = [A] + mine(c) + [B] + mine(other) + mine(c) + [A]
            for text, tag in ((tl_plain, "list"), (" ".join(tl_plain), "string")):
                expect(key, f"{name}.strings_to_coords({text!r}, {w!r}) [{tag}]", _call(dec, text, w), [c])
            for text, tag in ((tl_mixed, "list"), (" ".join(tl_mixed), "string")):
                g = _call(dec, text, w)
                if w == "include":
                    expect(key, f"{name}.strings_to_coords({text!r}, 'include') [{tag}]", g, [A, c, B, other, c, A])
                elif w == "skip":
                    expect(key, f"{name}.strings_to_coords({text!r}, 'skip') [{tag}]", g, [c, other, c])
                else:
                    expect_raises(key, f"{name}.strings_to_coords({text!r}, 'error') [{tag}]", g)


def check_codec_row(res, i):
    """one long sequence: every coordinate of row i interleaved with special tokens, both forms, list and string"""
    from maze_dataset import token_utils as TU

    inp = {"case": "codec-row", "row": i}
    items = []
    for j in range(50):
        items.append((i, j))
        if j % 3 == 0:
            items.append(SPECIALS[(i + j) % 11])
    coords_only = [x for x in items if not isinstance(x, str)]
    for nm, f, mine, key in (("UT", TU._coord_to_strings_UT, lambda x: ["(%d,%d)" % x], "C07:codec:UT"),
                             ("CTT", TU._coord_to_strings_indexed, lambda x: ["(", "%d" % x[0], ",", "%d" % x[1], ")"], "C07:codec:indexed")):
        res.seen(("codec-row", nm, i), nontrivial=True)
        want = [t for x in items for t in ([x] if isinstance(x, str) else mine(x))]
        got = _call(TU.coords_to_strings, items, f, "include")
        if got != ("ok", want):
            _fail(res, key, f"coords_to_strings(row {i} with special tokens, {nm}, 'include') is not the concatenation of the per-item encodings", inp, repr(got[1])[:300])
            continue
        for text in (want, " ".join(want)):
            g = _call(TU.strings_to_coords, text, "include")
            if g[0] == "raise" or _tupled(g[1]) != items:
                _fail(res, key, f"strings_to_coords(encoding of row {i}, 'include') [{'string' if isinstance(text, str) else 'list'}, {nm}] does not return the items", inp, repr(g[1])[:300])
            g = _call(TU.strings_to_coords, text, "skip")
            if g[0] == "raise" or _tupled(g[1]) != coords_only:
                _fail(res, key, f"strings_to_coords(encoding of row {i}, 'skip') [{'string' if isinstance(text, str) else 'list'}, {nm}] does not return the coordinates", inp, repr(g[1])[:300])
            g = _call(TU.strings_to_coords, text, "error")
            if g[0] == "ok" or not isinstance(g[1], ValueError):
                _fail(res, key, f"strings_to_coords(encoding of row {i} with special tokens, 'error') [{nm}] did not raise ValueError", inp, repr(g[1])[:300])


def _codec_worker(i):
    """all checks of row i of the coordinate range (pool task)"""
    warnings.simplefilter("ignore")
    r = BoundedResult("w", "w")
    try:
        for j in range(50):
            check_codec_coord(r, i, j)
        check_codec_row(r, i)
    except Exception as e:  # noqa: BLE001
        r.errors.append(f"{type(e).__name__}: {e} in row {i}\n{traceback.format_exc(limit=6)}")
    return _part(r)


# ====================================================================== (b), (c) mazes
class ParseError(Exception):
    pass


def _my_coord(tokens, k, ctt):
    """parse ONE coordinate at tokens[k:] -> (coord, next index); my own reading of the two documented spellings"""
    if ctt:
        t = tokens[k : k + 5]
        if len(t) == 5 and t[0] == "(" and t[2] == "," and t[4] == ")" and t[1].isdigit() and t[3].isdigit():
            return (int(t[1]), int(t[3])), k + 5
        raise ParseError(f"no five-token coordinate at {k}: {t}")
    t = tokens[k] if k < len(tokens) else ""
    if t.startswith("(") and t.endswith(")"):
        parts = t[1:-1].split(",")
        if len(parts) == 2 and all(p.isdigit() for p in parts):
            return (int(parts[0]), int(parts[1])), k + 1
    raise ParseError(f"no coordinate token at {k}: {t!r}")


def parse_tokens(tokens, ctt):
    """-> (non-adjacency tokens in order, list of unordered edges in order of appearance)"""
    if tokens.count("<ADJLIST_START>") != 1 or tokens.count("<ADJLIST_END>") != 1:
        raise ParseError("adjacency delimiters do not occur exactly once")
    i0, i1 = tokens.index("<ADJLIST_START>"), tokens.index("<ADJLIST_END>")
    if i0 > i1:
        raise ParseError("adjacency delimiters out of order")
    region = tokens[i0 + 1 : i1]
    edges, k = [], 0
    while k < len(region):
        a, k = _my_coord(region, k, ctt)
        if k >= len(region) or region[k] != "<-->":
            raise ParseError(f"connector expected at {k} of the adjacency region")
        b, k = _my_coord(region, k + 1, ctt)
        if k >= len(region) or region[k] != ";":
            raise ParseError(f"';' expected at {k} of the adjacency region")
        k += 1
        edges.append(frozenset({a, b}))
    return tokens[: i0 + 1] + tokens[i1:], edges


def one_shortest_path(conn, s, e):
    dist = S.bfs_dist(conn, e)
    if s not in dist:
        return None
    path = [s]
    while path[-1] != e:
        u = path[-1]
        path.append(min(v for v in S.neighbors(conn, u) if dist.get(v, -1) == dist[u] - 1))
    return path


def maxidx(conn):
    """every row index and every column index occurs in some connection"""
    es = S.edge_set(conn)
    rows = {c[0] for e in es for c in e}
    cols = {c[1] for e in es for c in e}
    return rows == set(range(conn.shape[1])) and cols == set(range(conn.shape[2]))


def endpoint_pairs(conn, rng):
    """(start, end) pairs: a one-cell path, a two-cell path, a longer one (same connected component)"""
    R, C = conn.shape[1:]
    cells = S.cells((R, C))
    out = []
    a = cells[int(rng.integers(len(cells)))]
    out.append((a, a))
    es = sorted(tuple(sorted(e)) for e in S.edge_set(conn))
    u, v = es[int(rng.integers(len(es)))]
    out.append((u, v) if rng.random() < 0.5 else (v, u))
    b = cells[int(rng.integers(len(cells)))]
    dist = S.bfs_dist(conn, b)
    far = max(dist.values())
    cands = sorted(x for x, d in dist.items() if d >= max(1, (2 * far) // 3))
    if cands:
        out.append((b, cands[int(rng.integers(len(cands)))]))
    return out


def build_maze(d):
    from maze_dataset.maze import LatticeMaze, SolvedMaze, TargetedLatticeMaze

    conn = np.array(d["conn"], dtype=np.bool_)
    if d["maze_kind"] == "LatticeMaze":
        return LatticeMaze(connection_list=conn)
    if d["maze_kind"] == "TargetedLatticeMaze":
        return TargetedLatticeMaze(connection_list=conn, start_pos=np.array(d["start"]), end_pos=np.array(d["end"]))
    return SolvedMaze(connection_list=conn, solution=np.array(d["solution"], dtype=int).reshape(-1, 2))


def _same_maze(maze, back):
    """-> None or a description of the difference (kind, connection structure, start, end, solution)"""
    if type(back) is not type(maze):
        return f"kind {type(back).__name__} instead of {type(maze).__name__}"
    if back.connection_list.shape != maze.connection_list.shape or not np.array_equal(back.connection_list, maze.connection_list):
        return f"connection_list differs (shape {back.connection_list.shape} vs {maze.connection_list.shape})"
    if back.connection_list.dtype != np.bool_:
        return f"connection_list dtype {back.connection_list.dtype}"
    for attr in ("start_pos", "end_pos", "solution"):
        if hasattr(maze, attr):
            x, y = np.asarray(getattr(back, attr, None)), np.asarray(getattr(maze, attr))
            if x.shape != y.shape or not np.array_equal(x, y):
                return f"{attr} {x.tolist()} instead of {y.tolist()}"
    return None


def check_maze_case(res, d):
    """one maze of one kind under one legacy mode: the four tokenizer variants round-trip and agree up to adjacency order"""
    mode, n = d["mode"], int(np.array(d["conn"]).shape[1])
    inp = {"case": "maze", **d}
    maze = build_maze(d)
    ctt = "CTT" in mode
    canon = {}
    conn = np.array(d["conn"], dtype=np.bool_)
    for vi, variant in enumerate(VARIANTS):
        res.seen((conn.shape, conn.tobytes(), d["maze_kind"], d.get("start"), d.get("end"), mode, variant), nontrivial=True,
                 sample={"grid": n, "kind": d["maze_kind"], "mode": mode, "variant": variant, "start": d.get("start"), "end": d.get("end")})
        tok = _tokenizer(mode, variant, n)
        vin = {**inp, "variant": variant}
        if variant == "modular":
            g = _call(tok.is_legacy_equivalent)
            if g != ("ok", True):
                _fail(res, "C07:modular:is_legacy_equivalent", f"from_legacy({mode}).is_legacy_equivalent() -> {g[1]!r}", vin, repr(g[1]))
        _seed_all(int(d["rng"]) + vi)
        g = _call(maze.as_tokens, tok)
        if g[0] == "raise":
            _fail(res, "C07:as_tokens:raises", f"as_tokens({variant} {mode}) of a {d['maze_kind']} on {n}x{n} raised {_exc(g[1])}", vin, _exc(g[1]))
            continue
        tokens = g[1]
        if not isinstance(tokens, list) or not all(isinstance(t, str) and t and t.split() == [t] for t in tokens):
            _fail(res, "C07:as_tokens:type", f"as_tokens({variant} {mode}) is not a list of whitespace-free strings", vin, repr(tokens)[:300])
            continue
        for form, text in (("list", list(tokens)), ("string", " ".join(tokens))):
            g = _call(type(maze).from_tokens, text, tok)
            if g[0] == "raise":
                _fail(res, "C07:roundtrip:" + form, f"{d['maze_kind']}.from_tokens(as_tokens(m) as {form}, {variant} {mode}) on {n}x{n} raised {_exc(g[1])}", vin, _exc(g[1]))
                continue
            diff = _same_maze(maze, g[1])
            if diff:
                _fail(res, "C07:roundtrip:" + form, f"{d['maze_kind']}.from_tokens(as_tokens(m) as {form}, {variant} {mode}) on {n}x{n}: {diff}", vin, diff)
        try:
            canon[variant] = parse_tokens(tokens, ctt)
        except ParseError as e:
            _fail(res, "C07:legacy-vs-modular" if variant == "modular" else "C07:tokens:unparseable",
                  f"tokens of {variant} {mode} are not <ADJLIST_START> (coord <--> coord ;)* <ADJLIST_END> ...: {e}", vin, tokens[:40])
    ref = canon.get("legacy")
    if ref is None:
        return
    for variant in VARIANTS:
        if variant not in canon:
            continue
        nonadj, edges = canon[variant]
        key = "C07:legacy-vs-modular" if variant == "modular" else "C07:legacy-variants"
        vin = {**inp, "variant": variant}
        if len(set(edges)) != len(edges):
            _fail(res, key, f"{variant} {mode}: some connection is listed more than once in the adjacency region", vin, None)
        if variant == "legacy":
            continue
        if nonadj != ref[0]:
            k = next((i for i, (a, b) in enumerate(zip(nonadj, ref[0])) if a != b), min(len(nonadj), len(ref[0])))
            _fail(res, key, f"{variant} and legacy {mode}: tokens outside the adjacency list differ at position {k}: {nonadj[k:k+4]} vs {ref[0][k:k+4]}", vin, nonadj[k : k + 8])
        if sorted(map(sorted, edges)) != sorted(map(sorted, ref[1])):
            only = set(edges) ^ set(ref[1])
            _fail(res, key, f"{variant} and legacy {mode}: adjacency regions encode different connection sets ({len(edges)} vs {len(ref[1])} entries; {len(only)} not shared)", vin, [sorted(e) for e in list(only)[:4]])


def maze_descriptors(conn, rng, tag):
    """all (kind, endpoints, mode) cases for one connection structure"""
    out = []
    pairs = endpoint_pairs(conn, rng)
    for mode in MODES:
        out.append({"conn": conn, "maze_kind": "LatticeMaze", "mode": mode, "rng": int(rng.integers(2**31)), "src": tag})
        for s, e in pairs:
            out.append({"conn": conn, "maze_kind": "TargetedLatticeMaze", "start": list(s), "end": list(e), "mode": mode, "rng": int(rng.integers(2**31)), "src": tag})
            sol = one_shortest_path(conn, s, e)
            if sol is not None:
                out.append({"conn": conn, "maze_kind": "SolvedMaze", "start": list(s), "end": list(e), "solution": [list(c) for c in sol], "mode": mode,
                            "rng": int(rng.integers(2**31)), "src": tag})
    return out


def generated_conn(gen, n, s):
    from maze_dataset.generation import LatticeMazeGenerators as G

    _seed_all(s)
    m = getattr(G, gen)(np.array([n, n]))
    return np.array(m.connection_list, dtype=np.bool_)


def _worker(chunk):
    warnings.simplefilter("ignore")
    r = BoundedResult("w", "w")
    for d in sorted(chunk, key=lambda d: d["conn"].shape[1]):  # smallest first: the kept failure reports are the smallest ones
        try:
            check_maze_case(r, d)
        except Exception as e:  # noqa: BLE001
            r.errors.append(f"{type(e).__name__}: {e} on {d.get('src')} {d.get('maze_kind')} {d.get('mode')}\n{traceback.format_exc(limit=6)}")
    return _part(r)


def _part(r):
    return {"evaluations": r.evaluations, "distinct": r.distinct, "samples": r.samples, "failures": r.failures, "errors": r.errors}


def _merge(res, part):
    res.evaluations += part["evaluations"]
    res.distinct |= part["distinct"]
    for s in part["samples"]:
        if len(res.samples) < 3:
            res.samples.append(s)
    for f in part["failures"]:
        _fail(res, f["key"], f["what"], {k: v for k, v in f["input"].items() if k != "key"}, f["observed"])
    res.errors.extend(part["errors"][:3])


def maze_chunks(tier, seed, nproc):
    """the maze cases of this tier, dealt round-robin (big grids first) into chunks for the pool"""
    rng = np.random.default_rng(seed)
    conns = []
    for n in (2, 3):
        for conn in S.all_conn_lists(n, n):
            if S.is_spanning_tree(conn):
                conns.append((conn, f"tree{n}x{n}"))
    mx = [c for c in S.all_conn_lists(3, 3) if maxidx(c) and not S.is_spanning_tree(c)]
    if tier != "thorough":
        pick = sorted(set(int(x) for x in rng.integers(0, len(mx), size=60)))
        mx = [mx[i] for i in pick]
    conns += [(c, "maxidx3x3") for c in mx]
    reps = 1 if tier != "thorough" else 4
    for n in range(4, 21):
        # quick tier: dfs+percolation (cycles) at every size, the two spanning-tree generators alternate
        gens = ("gen_dfs", "gen_wilson", "gen_dfs_percolation") if tier == "thorough" else (("gen_dfs", "gen_wilson")[n % 2], "gen_dfs_percolation")
        for gen in gens:
            for _ in range(reps):
                c = generated_conn(gen, n, int(rng.integers(2**31)))
                if maxidx(c):
                    conns.append((c, f"{gen}{n}"))
    descs = []
    for conn, tag in conns:
        descs += maze_descriptors(conn, rng, tag)
    descs.sort(key=lambda d: -d["conn"].shape[1])
    chunks = [descs[k :: nproc * 4] for k in range(nproc * 4)]
    return [c for c in chunks if c]


def merge_parts(res, parts, size_of):
    """merge pool results; the kept failure reports are the smallest inputs"""
    fails = sorted((f for p in parts for f in p["failures"]), key=lambda f: size_of(f["input"]))
    for p in parts:
        p["failures"] = []
        _merge(res, p)
    for f in fails:
        _fail(res, f["key"], f["what"], {k: v for k, v in f["input"].items() if k != "key"}, f["observed"])


# ====================================================================== (d) dataset-level tokenization
def _canon_tokens(tokens, ctt):
    nonadj, edges = parse_tokens(tokens, ctt)
    return nonadj, sorted(sorted(e) for e in edges)


def check_dataset_case(res, d):
    from maze_dataset.dataset.maze_dataset import MazeDataset, MazeDatasetConfig
    from maze_dataset.maze import SolvedMaze

    inp = {"case": "dataset", **d}
    mode, variant, limit, join = d["mode"], d["variant"], d["limit"], bool(d["join"])
    mazes = [SolvedMaze(connection_list=np.array(m["conn"], dtype=np.bool_), solution=np.array(m["solution"], dtype=int).reshape(-1, 2)) for m in d["mazes"]]
    n = mazes[0].connection_list.shape[1]
    ds = MazeDataset(MazeDatasetConfig(name="c07", grid_n=int(n), n_mazes=len(mazes)), mazes)
    tok = _tokenizer(mode, variant, n)
    ctt = "CTT" in mode
    res.seen((tuple(m.connection_list.tobytes() for m in mazes), mode, variant, limit, join), nontrivial=bool(limit is None or limit > 0),
             sample={"n_mazes": len(mazes), "grid": int(n), "mode": mode, "variant": variant, "limit": limit, "join": join})
    k = len(mazes) if limit is None else min(int(limit), len(mazes))
    # oracle: the per-maze tokenization of the first k mazes, same generator state
    _seed_all(d["rng"])
    want = [m.as_tokens(tok) for m in mazes[:k]]
    _seed_all(d["rng"])
    kwargs = {} if (limit is None and d.get("omit_limit")) else {"limit": limit}
    g = _call(ds.as_tokens, tok, join_tokens_individual_maze=join, **kwargs)
    if g[0] == "raise":
        _fail(res, "C07:dataset.as_tokens:raises", f"MazeDataset.as_tokens({variant} {mode}, limit={limit}, join={join}) raised {_exc(g[1])}", inp, _exc(g[1]))
        return
    got = g[1]
    if not isinstance(got, list) or len(got) != k:
        _fail(res, "C07:dataset.as_tokens:limit", f"MazeDataset.as_tokens(limit={limit}) on {len(mazes)} mazes returns {len(got) if isinstance(got, list) else type(got).__name__} entries, expected {k}", inp, len(got) if isinstance(got, list) else None)
        return
    for idx, (gt, wt) in enumerate(zip(got, want)):
        if join:
            if not isinstance(gt, str):
                _fail(res, "C07:dataset.as_tokens:join", f"entry {idx} is {type(gt).__name__}, one space-joined string expected", inp, repr(gt)[:200])
                break
            if gt != " ".join(gt.split()):
                _fail(res, "C07:dataset.as_tokens:join", f"entry {idx} is not joined by single spaces", inp, gt[:200])
                break
            gl = gt.split(" ")
        else:
            if not isinstance(gt, list) or not all(isinstance(t, str) for t in gt):
                _fail(res, "C07:dataset.as_tokens:join", f"entry {idx} is {type(gt).__name__}, a list of tokens expected", inp, repr(gt)[:200])
                break
            gl = gt
        try:
            same_up_to_order = _canon_tokens(gl, ctt) == _canon_tokens(wt, ctt)
        except ParseError as e:
            _fail(res, "C07:dataset.as_tokens:content", f"entry {idx} cannot be parsed: {e}", inp, gl[:40])
            break
        if not same_up_to_order:
            _fail(res, "C07:dataset.as_tokens:content", f"entry {idx} of MazeDataset.as_tokens({variant} {mode}, limit={limit}, join={join}) is not the tokenization of maze {idx}", inp, gl[:40])
            break
        if gl != wt:
            _fail(res, "C07:dataset.as_tokens:seeded", f"entry {idx}: same maze, same generator state, but the dataset-level tokens differ from the per-maze tokens in adjacency order", inp, gl[:40])
            break


def run_dataset(res, tier, seed):
    rng = np.random.default_rng(seed + 1)
    groups = []
    for n, count in ((3, 4), (6, 3)) + (((11, 5),) if tier == "thorough" else ()):
        ms = []
        for k in range(count):
            conn = generated_conn(("gen_dfs", "gen_dfs_percolation", "gen_wilson")[k % 3], n, int(rng.integers(2**31)))
            s, e = endpoint_pairs(conn, rng)[-1]
            ms.append({"conn": conn, "solution": [list(c) for c in one_shortest_path(conn, s, e)]})
        groups.append(ms)
    for ms in groups:
        L = len(ms)
        for mode in MODES:
            for variant in VARIANTS:
                for limit in (None, 0, 1, 2, L, L + 3):
                    for join in (False, True):
                        d = {"mazes": ms, "mode": mode, "variant": variant, "limit": limit, "join": join, "rng": int(rng.integers(2**31)), "omit_limit": bool(limit is None and join)}
                        check_dataset_case(res, d)


# ====================================================================== driver
def run(tier, seed):
    warnings.simplefilter("ignore")
    import maze_dataset.dataset.maze_dataset  # noqa: F401  (loaded before the fork so that the workers inherit it)
    import maze_dataset.tokenization  # noqa: F401

    t_start = time.time()
    nproc = max(1, min(16, os.cpu_count() or 1))
    pool = multiprocessing.get_context("fork").Pool(nproc) if nproc > 1 else None

    def submit(fn, tasks):
        if pool is None:
            return [fn(t) for t in tasks]
        return pool.map_async(fn, tasks, chunksize=1)

    def collect(res, handle, size_of):
        try:
            parts = handle if isinstance(handle, list) else handle.get()
            merge_parts(res, parts, size_of)
        except Exception as e:  # noqa: BLE001
            res.errors.append(f"{type(e).__name__}: {e}\n{traceback.format_exc(limit=6)}")
        res.seconds = time.time() - t_start

    r1 = BoundedResult(
        "C07.coord-codec",
        rule="complete over the coordinate range of the vocabulary: every (i,j), 0<=i,j<50, in the unique-token form and the five-token form; "
        "coordinates given as tuple/list/np.int8/arrays; encode then decode as a token list and as ONE space-joined string, alone and between special tokens "
        "(all 11 occur as neighbours), when_noncoord include/skip/error; bare functions, the three legacy MazeTokenizer modes and their modular equivalents; "
        "plus each whole row of 50 coordinates interleaved with special tokens; identical in both tiers; distinct by (form, i, j)",
        exhaustive=True,
        functions=["_coord_to_strings_UT", "_coord_to_strings_indexed", "coords_to_strings", "strings_to_coords", "coord_str_to_tuple", "coord_str_to_tuple_noneable",
                   "str_is_coord", "coords_string_split_UT", "MazeTokenizer.coords_to_strings", "MazeTokenizerModular.coords_to_strings"],
    )
    r2 = BoundedResult(
        "C07.maze-roundtrip",
        rule="square grids in which every row and column index occurs in a connection: all spanning trees of 2x2 (4) and 3x3 (192); "
        + ("all other such structures on 3x3" if tier == "thorough" else "a seeded sample of 60 other such structures on 3x3")
        + ("; 4 seeded mazes of each of gen_dfs / gen_wilson / gen_dfs_percolation per size 4..20" if tier == "thorough"
           else "; per size 4..20 one seeded gen_dfs_percolation maze and one gen_dfs (even sizes) / gen_wilson (odd sizes) maze")
        + "; each as LatticeMaze, and as "
        "TargetedLatticeMaze / SolvedMaze (one shortest path) for a one-cell, a two-cell and a long path; x 3 legacy modes x {MazeTokenizer, MazeTokenizer(max_grid_size), "
        "TokenizationMode, MazeTokenizerModular.from_legacy}; from_tokens on the token list and on one space-joined string; legacy vs modular tokens compared after "
        "parsing both (non-adjacency tokens in order, adjacency entries as a duplicate-free set of unordered edges); distinct by (connection bits, kind, endpoints, mode, variant)",
        exhaustive=False,
        functions=["LatticeMaze.as_tokens", "LatticeMaze._as_tokens", "LatticeMaze._as_coords_and_special_AOTP", "LatticeMaze.from_tokens", "LatticeMaze._from_tokens_AOTP",
                   "MazeTokenizerModular.from_legacy", "MazeTokenizerModular.is_legacy_equivalent", "MazeTokenizerModular.to_tokens", "PromptSequencers.AOTP",
                   "AdjListTokenizers.AdjListCoord", "get_path_tokens", "get_origin_tokens", "get_target_tokens", "get_adj_list_tokens"],
    )
    r3 = BoundedResult(
        "C07.dataset-as_tokens",
        rule="datasets of 4 3x3 and 3 6x6 " + ("and 5 11x11 " if tier == "thorough" else "") + "seeded solved mazes x 3 legacy modes x 4 tokenizer variants x limit in "
        "{None (also omitted), 0, 1, 2, len, len+3} x join in {False, True}; oracle = per-maze as_tokens of the first min(limit, len) mazes in order, compared up to adjacency "
        "order (parsed) and, with the three random generators seeded identically, token for token; non-trivial = at least one maze returned",
        exhaustive=False,
        functions=["MazeDataset.as_tokens"],
    )
    try:
        h1 = h2 = None
        try:
            h1 = submit(_codec_worker, list(range(50)))
            h2 = submit(_worker, maze_chunks(tier, seed, nproc))
        except Exception as e:  # noqa: BLE001
            r2.errors.append(f"{type(e).__name__}: {e}\n{traceback.format_exc(limit=6)}")
        t3 = time.time()
        try:
            run_dataset(r3, tier, seed)  # in the parent while the pool works
        except Exception as e:  # noqa: BLE001
            r3.errors.append(f"{type(e).__name__}: {e}\n{traceback.format_exc(limit=6)}")
        r3.seconds = time.time() - t3
        if h1 is not None:
            collect(r1, h1, lambda inp: tuple(inp.get("coord", [inp.get("row", 0), 0])))
        if h2 is not None:
            collect(r2, h2, lambda inp: np.array(inp["conn"]).shape[1])
    finally:
        if pool is not None:
            pool.terminate()
            pool.join()
    return [r1, r2, r3]


def replay(check, inp):
    """re-run the case a recorded failure came from; True iff the recorded failure key no longer shows up"""
    warnings.simplefilter("ignore")
    res = BoundedResult("replay", "replay")
    case = inp.get("case")
    d = {k: v for k, v in inp.items() if k not in ("case", "key", "variant") or (k == "variant" and case == "dataset")}
    if case == "codec":
        check_codec_coord(res, int(inp["coord"][0]), int(inp["coord"][1]))
    elif case == "codec-row":
        check_codec_row(res, int(inp["row"]))
    elif case == "maze":
        for k in ("start", "end"):
            if d.get(k) is not None:
                d[k] = [int(x) for x in d[k]]
        if d.get("solution") is not None:
            d["solution"] = [[int(x) for x in c] for c in d["solution"]]
        d["conn"] = np.array(d["conn"], dtype=np.bool_)
        check_maze_case(res, d)
    elif case == "dataset":
        d["mazes"] = [{"conn": np.array(m["conn"], dtype=np.bool_), "solution": [[int(x) for x in c] for c in m["solution"]]} for m in d["mazes"]]
        check_dataset_case(res, d)
    else:
        raise ValueError(f"unknown replay case {case!r}")
    key = inp.get("key")
    bad = [f for f in res.failures if key is None or f["key"] == key]
    for f in bad:
        print("  still failing:", f["key"], f["what"][:300])
    for e in res.errors:
        print("  replay error:", e[:500])
    return not bad and not res.errors
