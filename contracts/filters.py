"""Sidecar contracts for the dataset filters (C08).

"Each built-in filter returns a new dataset whose mazes are exactly those of the input that satisfy its documented rule, in their
original order" is stated with `is_filter(result.mazes, dataset.mazes, lambda k: rule(k))` (pyvc/filt.py): the comprehension / append
loop of the real code yields the keep-predicate the code actually computes and the obligation is that it agrees with the rule on
every index.  Arrays are values in the encoding, so "the input is left unchanged" is NOT decided here (A-alias): the bounded
stand-in snapshots the input around every filter."""
from pyvc.contracts import contract, Loop, REGISTRY
from pyvc import tys as T
from contracts.serialization import SOLVED

MD = "maze_dataset/dataset/maze_dataset.py"
REGISTRY.class_files.update({"MazeDataset": MD})
REGISTRY.inlinable.update({(MD, "MazeDataset.__len__"), (MD, "MazeDataset.__getitem__"), (MD, "MazeDataset.__init__"), (MD, "MazeDataset.update_self_config")})

# one recorded filter application
ENTRY = T.PyDictT(name=T.Str, args=T.ObjT("args"), kwargs=T.ObjT("kwargs"))
CFGF = T.RecT("MazeDatasetConfig", grid_n=T.Nat, n_mazes=T.Int, applied_filters=T.ListT(ENTRY))
DS = T.RecT("MazeDataset", cfg=CFGF, mazes=T.ListT(SOLVED), generation_metadata_collected=T.ObjT("meta"))

_PROVENANCE = {
    # the result's configuration records the filter name and arguments after the entries already there, with an updated maze count
    "C08.provenance.len": "len(result.cfg.applied_filters) == len(dataset.cfg.applied_filters) + 1",
    "C08.provenance.kept": "forall(lambda t: result.cfg.applied_filters[t]['name'] == dataset.cfg.applied_filters[t]['name']"
    " and result.cfg.applied_filters[t]['args'] == dataset.cfg.applied_filters[t]['args']"
    " and result.cfg.applied_filters[t]['kwargs'] == dataset.cfg.applied_filters[t]['kwargs'], (0, len(dataset.cfg.applied_filters)))",
    "C08.count-updated": "result.cfg.n_mazes == len(result.mazes)",
}


@contract(MD, "MazeDatasetFilters.path_length")
class path_length:
    params = dict(maze=SOLVED, min_length=T.Int)
    ensures = {"C08.path_length": "result == (maze.solution.shape[0] >= min_length)"}
    result = T.Bool
    props = ["C08"]


@contract(MD, "MazeDatasetFilters.start_end_distance")
class start_end_distance:
    params = dict(maze=SOLVED, min_distance=T.Int)
    ensures = {"C08.start_end_distance": "result == (abs(maze.start_pos[0] - maze.end_pos[0]) + abs(maze.start_pos[1] - maze.end_pos[1]) >= min_distance)"}
    result = T.Bool
    props = ["C08"]


@contract(MD, "register_maze_filter.wrapper")
class maze_filter_wrapper:
    """the wrapper every per-maze filter (path_length, start_end_distance) runs through; `method` is an arbitrary pure predicate"""
    params = dict(dataset=DS, method=T.PredT(), args=T.ObjT("args"), kwargs=T.ObjT("kwargs"))
    ensures = {
        "C08.select": "is_filter(result.mazes, dataset.mazes, lambda k: method(dataset.mazes[k], *args, **kwargs))",
        "C08.provenance.entry": "result.cfg.applied_filters[len(dataset.cfg.applied_filters)]['name'] == method.__name__"
        " and result.cfg.applied_filters[len(dataset.cfg.applied_filters)]['args'] == args"
        " and result.cfg.applied_filters[len(dataset.cfg.applied_filters)]['kwargs'] == kwargs",
        **_PROVENANCE,
    }
    props = ["C08"]


@contract("maze_dataset/dataset/dataset.py", "register_dataset_filter.wrapper")
class dataset_filter_wrapper:
    """the wrapper every whole-dataset filter runs through; `method` is an arbitrary function returning a dataset"""
    params = dict(dataset=DS, method=T.FuncT(DS), args=T.ObjT("args"), kwargs=T.ObjT("kwargs"))
    ensures = {
        "C08.dataset-filter.mazes": "same_value(result.mazes, method(dataset, *args, **kwargs).mazes)",
        "C08.provenance.len": "len(result.cfg.applied_filters) == len(method(dataset, *args, **kwargs).cfg.applied_filters) + 1",
        "C08.provenance.kept": "forall(lambda t: result.cfg.applied_filters[t]['name'] == method(dataset, *args, **kwargs).cfg.applied_filters[t]['name']"
        " and result.cfg.applied_filters[t]['args'] == method(dataset, *args, **kwargs).cfg.applied_filters[t]['args']"
        " and result.cfg.applied_filters[t]['kwargs'] == method(dataset, *args, **kwargs).cfg.applied_filters[t]['kwargs'], (0, len(method(dataset, *args, **kwargs).cfg.applied_filters)))",
        "C08.provenance.entry": "result.cfg.applied_filters[len(method(dataset, *args, **kwargs).cfg.applied_filters)]['name'] == method.__name__"
        " and result.cfg.applied_filters[len(method(dataset, *args, **kwargs).cfg.applied_filters)]['args'] == args"
        " and result.cfg.applied_filters[len(method(dataset, *args, **kwargs).cfg.applied_filters)]['kwargs'] == kwargs",
        "C08.count-updated": "result.cfg.n_mazes == len(result.mazes)",
    }
    props = ["C08"]


_LENGTHS = "np.array([len(m.solution) for m in dataset.mazes])"


@contract(MD, "MazeDatasetFilters.cut_percentile_shortest")
class cut_percentile_shortest:
    params = dict(dataset=DS, percentile=T.Real)
    ensures = {
        # strictly longer than the truncated p-th length percentile (np.percentile is the trusted meaning of "percentile")
        "C08.cut_percentile": f"is_filter(result.mazes, dataset.mazes, lambda k: dataset.mazes[k].solution.shape[0] > int(np.percentile({_LENGTHS}, percentile)))",
        "C08.cfg-kept": "same_value(result.cfg, dataset.cfg)",
    }
    props = ["C08"]


@contract(MD, "MazeDatasetFilters.truncate_count")
class truncate_count:
    params = dict(dataset=DS, max_count=T.Nat)
    ensures = {
        "C08.truncate.len": "len(result.mazes) == ite(max_count <= len(dataset.mazes), max_count, len(dataset.mazes))",
        "C08.truncate.items": "forall(lambda k: same_value(result.mazes[k], dataset.mazes[k]), (0, len(result.mazes)))",
        "C08.cfg-kept": "same_value(result.cfg, dataset.cfg)",
    }
    props = ["C08"]


# two mazes are "within the thresholds": same shape and at most that many differing entries, for the connection lists or the solutions
_CLOSE = ("((minimum_difference_connection_list is not None and same_shape(dataset.mazes[{a}].connection_list, dataset.mazes[{b}].connection_list)"
          " and n_diff(dataset.mazes[{a}].connection_list, dataset.mazes[{b}].connection_list) <= minimum_difference_connection_list)"
          " or (minimum_difference_solution is not None and same_shape(dataset.mazes[{a}].solution, dataset.mazes[{b}].solution)"
          " and n_diff(dataset.mazes[{a}].solution, dataset.mazes[{b}].solution) <= minimum_difference_solution))")
_N = "len(dataset.mazes)"
# keep a maze only if no LATER maze is within the thresholds
_KEEP = "not exists(lambda b: " + _CLOSE.format(a="a", b="b") + f", (a + 1, {_N}))"


@contract(MD, "MazeDatasetFilters.remove_duplicates")
class remove_duplicates:
    params = dict(dataset=DS, minimum_difference_connection_list=T.OneOf(T.NoneT(), T.Int), minimum_difference_solution=T.OneOf(T.NoneT(), T.Int), _max_dataset_len_threshold=T.Int)
    ensures = {
        "C08.remove_duplicates": f"is_filter(result.mazes, dataset.mazes, lambda a: {_KEEP})",
        "C08.cfg-kept": "same_value(result.cfg, dataset.cfg)",
    }
    raises = {"ValueError": f"{_N} > _max_dataset_len_threshold"}
    loops = {
        0: Loop(
            head="for i, maze_a in enumerate(dataset.mazes)",
            havoc=dict(unique_mazes=lambda env: T.FiltT(env["dataset"].fields["mazes"])),
            inv={"kept-so-far": f"is_filter(unique_mazes, dataset.mazes, lambda a: {_KEEP}, _k)"},
        ),
        1: Loop(
            head="for maze_b in dataset.mazes[i + 1 :]",
            havoc=dict(a_unique=T.Bool),
            inv={"no-close-maze-so-far": "a_unique and forall(lambda b: not " + _CLOSE.format(a="i", b="b") + ", (i + 1, i + 1 + _k))"},
        ),
    }
    props = ["C08"]


@contract(MD, "MazeDataset.custom_maze_filter")
class custom_maze_filter:
    params = dict(self=DS, method=T.PredT(), kwargs=T.ObjT("kwargs"))
    lets = dict(dataset="self")
    ensures = {
        "C08.select": "is_filter(result.mazes, self.mazes, lambda k: method(self.mazes[k], **kwargs))",
        "C08.provenance.entry": "result.cfg.applied_filters[len(self.cfg.applied_filters)]['name'] == '__custom__:' + method.__name__"
        " and result.cfg.applied_filters[len(self.cfg.applied_filters)]['kwargs'] == kwargs",
        **_PROVENANCE,
    }
    props = ["C08"]


@contract(MD, "MazeDatasetFilters.remove_duplicates_fast")
class remove_duplicates_fast:
    """the mazes that are not equal (same connection structure, start, end, solution) to an EARLIER maze of the input, in their original order"""
    params = dict(dataset=DS)
    ensures = {
        "C08.remove_duplicates_fast": "is_filter(result.mazes, dataset.mazes, lambda a: not exists(lambda b: maze_equal(dataset.mazes[b], dataset.mazes[a]), (0, a)))",
        "C08.cfg-kept": "same_value(result.cfg, dataset.cfg)",
    }
    props = ["C08"]
