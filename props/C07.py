"""C07 - legacy tokenization round-trips and agrees with its modular equivalent."""
ID = "C07"
LEVEL = "exploration"
LEVEL_TEXT = 'Bounded: the coordinate string codec is checked completely over all coordinates < 50 (its whole vocabulary range); maze round trips for the three legacy modes and their modular equivalents on all spanning trees of 2x2/3x3 and seeded larger mazes, as token lists and joined strings; legacy vs modular token multisets compared with an independent parser; dataset-level tokenization against per-maze tokenization.'
LEVEL_NOTE = 'Trusted: regex/str semantics of CPython (outside the SMT-decidable fragment).'
TECHNIQUE = "bounded stand-in of the contract-based verifier: run-time checking of the real code against an independent executable statement over an enumerated scope (no function of this property is in the verified subset yet)"
CONTRACT_MODULES = []
PROVE = []
ASSUMPTIONS = []
EXPLANATION = "see DESIGN.md C07"


def run(run):
    from props._std import run_bounded

    if PROVE:
        run.prove(PROVE)
    run_bounded(run, "C07")
