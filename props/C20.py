"""C20 - maze plots draw the maze that was given."""
ID = "C20"
LEVEL = "exploration"
LEVEL_TEXT = "Bounded: the image builder's blocks and strips against the connection structure for unit lengths {3,4,14}, with/without cell values; image and path data read back from the matplotlib Axes; ASCII export."
LEVEL_NOTE = 'Trusted: matplotlib draws what it is given.'
TECHNIQUE = "bounded stand-in of the contract-based verifier: run-time checking of the real code against an independent executable statement over an enumerated scope (no function of this property is in the verified subset yet)"
CONTRACT_MODULES = []
PROVE = []
ASSUMPTIONS = []
EXPLANATION = "see DESIGN.md C20"


def run(run):
    from props._std import run_bounded

    if PROVE:
        run.prove(PROVE)
    run_bounded(run, "C20")
