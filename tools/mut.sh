#!/bin/sh
# usage: mut.sh <file-rel> <sed-expr> <contracts-module> <qualnames...>   -- apply a sed mutation on a scratch copy and run try_contract
D=/var/tmp/mzmut.$$
rm -rf $D; mkdir -p $D; cp -r /repo/maze_dataset $D/
F=$1; E=$2; shift 2
sed -i "$E" $D/$F
diff <(cd /repo && cat $F) $D/$F | head -6
VERIF_REPO=$D /verif/.venv312/bin/python /verif/tools/try_contract.py "$@" 2>&1 | grep -v conda | grep -v " discharged "
rm -rf $D
