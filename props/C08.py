"""C08 - dataset filters select exactly what they document and never disturb their input."""
ID = "C08"
LEVEL = "proof"
LEVEL_TEXT = (
    "PROVED (unbounded, z3; for every dataset length, every maze and every argument): the selection rule and order of the filters and the provenance record. "
    "path_length keeps a maze iff len(solution) >= min_length; start_end_distance iff the Manhattan distance of start and end >= min_distance; the wrapper all per-maze "
    "filters run through (register_maze_filter.wrapper, for an ARBITRARY pure predicate) and custom_maze_filter return exactly the input mazes satisfying the predicate, in "
    "their original order; cut_percentile_shortest keeps exactly the mazes strictly longer than the truncated np.percentile of the lengths (empty dataset included); "
    "truncate_count returns the first min(max_count, n) mazes; remove_duplicates keeps a maze iff no LATER maze is within the thresholds (same shape and at most that many "
    "differing entries in the connection list, or in the solution; None disables a criterion, 0 does not) - two nested loop invariants - and raises ValueError exactly above the "
    "length threshold; both wrappers append exactly one provenance entry (name, args, kwargs) after the entries already recorded and set cfg.n_mazes to the new length. "
    "'Exactly those, in order' is the obligation that the keep-predicate the real comprehension / append loop computes agrees with the documented rule on every index "
    "(pyvc/filt.py). NOT decided by proof (arrays and records are values in the encoding, assumption A-alias): that the input dataset is left untouched and the result shares "
    "nothing with it; strip_generation_meta, collect_generation_meta and the config-driven application - all decided by the bounded stand-in (remove_duplicates_fast is proved through the library contract of dict.fromkeys: the mazes not equal to an earlier maze, in order): "
    "every built-in filter and custom predicates against an oracle written from the statement, on datasets with planted exact/near duplicates, all-equal lengths and empty "
    "results; input snapshots before/after; provenance over sequences of up to three filters; from_config with recorded filters against manual application."
)
LEVEL_NOTE = ("Trusted: pyvc encoding; copy.deepcopy returns an equal value (MazeDataset.__deepcopy__ goes through muutils serialization; input isolation is bounded only); np.percentile "
              "and np.sum(a != b) as uninterpreted pure functions; python's legacy __getitem__ iteration protocol; super().__init__() of torch Dataset has no effect; decorators "
              "themselves (functools.wraps, staticmethod, registration) are not modelled: the decorated bodies and the wrapper bodies are verified separately.")
TECHNIQUE = "contract-based deductive verification of the filter bodies and both filter wrappers (filtered-view obligations, loop invariants, z3) + bounded run-time checking for input isolation, metadata filters and config-driven application"
CONTRACT_MODULES = ["contracts.filters"]
MD = "maze_dataset/dataset/maze_dataset.py"
PROVE = [
    (MD, "MazeDatasetFilters.path_length"),
    (MD, "MazeDatasetFilters.start_end_distance"),
    (MD, "register_maze_filter.wrapper"),
    ("maze_dataset/dataset/dataset.py", "register_dataset_filter.wrapper"),
    (MD, "MazeDatasetFilters.cut_percentile_shortest"),
    (MD, "MazeDatasetFilters.truncate_count"),
    (MD, "MazeDatasetFilters.remove_duplicates"),
    (MD, "MazeDatasetFilters.remove_duplicates_fast"),
    (MD, "MazeDataset.custom_maze_filter"),
]
ASSUMPTIONS = ["max_count >= 0 for truncate_count (a negative count is python slice semantics, outside the documented rule)",
               "MazeDataset.__init__, __len__, __getitem__, update_self_config are inlined (their real bodies are executed symbolically at each call site)"]
EXPLANATION = "see DESIGN.md C08"


def run(run):
    from props._std import run_bounded

    if PROVE:
        run.prove(PROVE)
    run_bounded(run, "C08")
