"""C17 - rasterized input/target images show the problem and only the solution."""
ID = "C17"
LEVEL = "proof"
LEVEL_TEXT = (
    "PROVED (unbounded, z3; every solved maze whose solution is a lattice walk from start to end, every grid size, all 8 option combinations): process_maze_rasterized_input_target. "
    "With P the maze's own pixel image (as_pixels with endpoints and solution, itself proved under C10): the input image is P with the path pixels shown as open and everything else - "
    "endpoints included - kept; the target image is open on the path pixels, wall where P is open or wall, and keeps START/END unless endpoints_as_open, which opens them; then the "
    "optional post-processing is applied to BOTH images in the stated order: _remove_isolated_cells (a non-wall pixel whose four neighbours are wall or outside becomes wall, nothing else "
    "changes) and then _extend_pixels (each pixel doubled in both directions inside a one-pixel wall frame) - both helpers proved pointwise for every image size against their real bodies. "
    "PROVED too: RasterizedMazeDataset.__getitem__(idx) is process_maze_rasterized_input_target of self.mazes[idx] (python index semantics) with the dataset's own three configuration flags, each "
    "in its own position (the callee is a function of its arguments), and get_batch(idxs): for every index list within range (None = all items) over mazes of one grid shape, slot k of result[0] / result[1] is the input / target image of "
    "item idxs[k], in the order requested (the comprehension, zip(*...) transposition and the three torch.stack calls of the real body; torch.stack's equal-shape and non-empty demands are obligations). "
    "The bounded stand-in stays as a cross-check: input/target "
"images recomputed independently from as_pixels for all 8 option combinations on solved mazes (incl. isolated cells, length-1 solutions), batches over enumerated index lists."
)
LEVEL_NOTE = "Trusted: pyvc encoding; torch.tensor(np.array([...])) keeps values and layout; torch.stack(seq)[k] is seq[k]; iterating a tensor yields its slices along the first axis; boolean-mask assignment and np.pad / np.repeat library models."
TECHNIQUE = "contract-based deductive verification of the image construction and both post-processing helpers (pointwise array obligations over the real AST, z3) + bounded run-time checking for batches and dataset-level indexing"
CONTRACT_MODULES = ["contracts.pixels", "contracts.raster"]
PROVE = [("maze_dataset/maze/lattice_maze.py", "_remove_isolated_cells"), ("maze_dataset/dataset/rasterized.py", "_extend_pixels"),
         ("maze_dataset/maze/lattice_maze.py", "LatticeMaze.as_pixels"), ("maze_dataset/dataset/rasterized.py", "process_maze_rasterized_input_target"),
         ("maze_dataset/dataset/rasterized.py", "RasterizedMazeDataset.__getitem__"), ("maze_dataset/dataset/rasterized.py", "RasterizedMazeDataset.get_batch")]
ASSUMPTIONS = ["the solution of the solved maze is a lattice walk in the grid from its start to its end (what SolvedMaze construction and the generators guarantee; as_pixels asserts adjacency)"]
EXPLANATION = "see DESIGN.md C17"


def run(run):
    from props._std import run_bounded

    if PROVE:
        run.prove(PROVE)
    run_bounded(run, "C17")
