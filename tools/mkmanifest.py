"""Regenerate MANIFEST.json from props/*.py (claimed) and tools/not_applicable.json."""
import importlib, json, os, sys, glob
V = os.path.dirname(os.path.dirname(os.path.abspath(__file__)))
sys.path.insert(0, V)
props = json.loads("[" + ",".join(l for l in open(os.path.join(V, "properties.jsonl")) if l.strip()) + "]")
ids = [p["id"] for p in props]
claimed = []
for pid in ids:
    if os.path.exists(os.path.join(V, "props", f"{pid}.py")):
        src = open(os.path.join(V, "props", f"{pid}.py")).read()
        ns = {}
        # read the declarative header without importing the engine
        import ast
        tree = ast.parse(src)
        for n in tree.body:
            if isinstance(n, ast.Assign) and isinstance(n.targets[0], ast.Name) and n.targets[0].id in ("LEVEL", "LEVEL_TEXT", "LEVEL_NOTE", "TECHNIQUE", "DESIGN_REF", "CLAIMED"):
                try:
                    ns[n.targets[0].id] = ast.literal_eval(n.value)
                except Exception:
                    pass
        if ns.get("CLAIMED", True):
            claimed.append((pid, ns))
na_path = os.path.join(V, "tools", "not_applicable.json")
na = json.load(open(na_path)) if os.path.exists(na_path) else {}
checks = []
for pid, ns in claimed:
    checks.append({
        "property_id": pid,
        "quick_cmd": f"./check {pid} --tier quick",
        "thorough_cmd": f"./check {pid} --tier thorough",
        "evidence_file": f"/verif/evidence/{pid}.json",
        "replay_cmd_template": f"./check {pid} --replay {{path}}",
        "engine": "pyvc",
        "level_claimed": {"category": ns.get("LEVEL", "proof"), "text": ns.get("LEVEL_TEXT", ""), "design_ref": ns.get("DESIGN_REF", f"DESIGN.md section 5, {pid}")},
        "level_note": ns.get("LEVEL_NOTE", ""),
        "technique": ns.get("TECHNIQUE", "contract-based deductive verification (pyvc: AST -> VCs -> z3/cvc5) with bounded run-time contract checking as stand-in"),
    })
claimed_ids = {pid for pid, _ in claimed}
manifest = {
    "version": 1,
    "setup_cmd": "./tools/setup.sh",
    "hooks": {
        "guard": "MAZE_DATASET_VERIF",
        "enable": "not needed: contracts are sidecar files, the verifier parses /repo's working tree with ast on every run, randomness is scripted by monkey-patching from the harness; no hook exists in /repo",
        "baseline_off_cmd": "cd /repo && /venv/bin/python -m pytest -ra -q -p no:cacheprovider --timeout=900 --continue-on-collection-errors",
        "source_commits": [],
        "add_only": True,
    },
    "engines": [
        {"name": "pyvc", "path": "/verif/pyvc", "serves_properties": sorted(claimed_ids),
         "kind_free_text": "deductive verifier built for this task: symbolic execution of the real Python AST, loops cut at sidecar invariants, callees replaced by contracts, obligations discharged by z3 5.1 (cvc5 on unknown); concrete reading of the same contracts for native replay and bounded stand-ins"},
    ],
    "checks": checks,
    "notes": "exit codes: 0 held / 1 violation (VIOLATION line) / 2 undecided / 3 checker error. Bounded stand-ins are labelled bounded in evidence and never counted as proved.",
    "not_applicable": [{"property_id": pid, "reason": na.get(pid, "check not built yet in this session (see DESIGN.md section 5 for the plan)")} for pid in ids if pid not in claimed_ids],
}
json.dump(manifest, open(os.path.join(V, "MANIFEST.json"), "w"), indent=1)
import jsonschema
jsonschema.validate(manifest, json.load(open("/root/.vp/MANIFEST.schema.json")))
print("MANIFEST ok:", len(checks), "claimed;", len(manifest["not_applicable"]), "not applicable")
