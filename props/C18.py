"""C18 - configurations round-trip exactly and have stable, discriminating identities."""
ID = "C18"
LEVEL = "exploration"
LEVEL_TEXT = (
    "PROVED (z3; any configuration): stable_hash_cfg is stable_hash(json.dumps(self.serialize())) - a function of the serialized content only - and to_fname is "
    "sanitize_fname(name '-g' grid_n '-n' shorten(n_mazes) '-a_' generator-name-without-gen_ '-h' (that hash mod 10^5)) (library functions uninterpreted); GPTDatasetConfig.__post_init__ keeps every seed except None (0 included) and the other fields; _load_maze_ctor returns the registered generator of the stored __name__ (dict form) or of the bare name (string form) for any generator table; the serializer and loader lambdas of the three fields maze_ctor / maze_ctor_kwargs / endpoint_kwargs (stored as they are, every key kept); the three field loaders written as lambdas in the field declarations (read as def f(data): return <expression>) return the registered generator of the stored name (the serializer lambda stores the generator's own __name__ and __module__), the stored generator arguments unchanged, and the stored endpoint options with every coordinate list restored as a list of tuples in order (absent / None entries give the empty dict). Everything else is bounded: "
    + 'Bounded: serialize/load (also through JSON text) over a cross product of generators, kwargs, endpoint options, seeds and filter lists; hashes pairwise distinct for single-field differences, equal across 3 hash seeds; file name against the documented format.'
)
LEVEL_NOTE = "Trusted: muutils field walk (serialize/load), sha256 collision freedom, json.dumps / stable_hash / sanitize_fname / shorten_numerical_to_str as pure functions."
TECHNIQUE = "bounded run-time checking of the real code over an enumerated cross product (round trips, pairwise discrimination, hash seeds) + contracts on the two identity functions, the seed-keeping constructor hook and the generator lookup discharged by z3"
CONTRACT_MODULES = ["contracts.configs"]
MD = "maze_dataset/dataset/maze_dataset.py"
PROVE = [(MD, "MazeDatasetConfig.stable_hash_cfg"), (MD, "MazeDatasetConfig.to_fname"), (MD, "_load_maze_ctor"), (MD, "MazeDatasetConfig.maze_ctor@serialization_fn"), (MD, "MazeDatasetConfig.maze_ctor@loading_fn"), (MD, "MazeDatasetConfig.maze_ctor_kwargs@serialization_fn"), (MD, "MazeDatasetConfig.maze_ctor_kwargs@loading_fn"), (MD, "MazeDatasetConfig.endpoint_kwargs@serialization_fn"), (MD, "MazeDatasetConfig.endpoint_kwargs@loading_fn"), ("maze_dataset/dataset/dataset.py", "GPTDatasetConfig.__post_init__")]
ASSUMPTIONS = ["A-pairs: a stored endpoint coordinate is a sequence of two integers (typed as a pair)", "the stored generator name is a key of GENERATORS_MAP (otherwise the lookup raises KeyError and nothing is returned)", "muutils calls each field's loading_fn lambda with the serialized dict (trusted; exercised by the bounded round trips)"]
EXPLANATION = "see DESIGN.md C18"


def run(run):
    from props._std import run_bounded

    if PROVE:
        run.prove(PROVE)
    run_bounded(run, "C18")
