"""C15 - the tokenizer configuration space is enumerated exactly and identified uniquely."""
ID = "C15"
LEVEL = "exploration"
LEVEL_TEXT = 'Bounded, complete per element family in the quick tier and over all 5,878,656 tokenizers in the thorough tier: an independent count/enumeration from the dataclass field types and the documented validity rules, names and stable hashes pairwise distinct, stable across PYTHONHASHSEED, save/load, legacy equivalence (in the quick tier on a 20,000-configuration sample, the images of the legacy modes and all their one-element neighbours), identity unchanged by use, and a multi-step history: the test sampler is used and the enumerated set looked at again (on a stubbed small set in the quick tier, on the real set in the thorough tier). No function of this property is within the prover\'s subset (reflection over type hints, decorators): an honest bounded decision, complete in the thorough tier.'
LEVEL_NOTE = 'Type-hint reflection in all_instances is outside the verified subset.'
TECHNIQUE = "bounded stand-in of the contract-based verifier: run-time checking of the real code against an independent executable statement over an enumerated scope (no function of this property is in the verified subset yet)"
CONTRACT_MODULES = []
PROVE = []
ASSUMPTIONS = []
EXPLANATION = "see DESIGN.md C15"


def run(run):
    from props._std import run_bounded

    if PROVE:
        run.prove(PROVE)
    run_bounded(run, "C15")
