"""Bounded stand-in for C15: the tokenizer configuration space is enumerated exactly and identified uniquely.

Independent enumerator: a recursive product/sum over the dataclass field TYPES of MazeTokenizerModular and the
_TokenizerElement hierarchy (product over dataclass fields and fixed tuples, sum over the concrete subclasses of abstract
classes and over unions, 2 for bool, the listed values for Literal), minus the families excluded by the documented validity
rules, which are RE-STATED here (RULES below) from the documentation of the classes:
  * classes marked "unsupported" never appear: EdgeGroupings.ByLeadingCoord, StepSizes.Straightaways, StepSizes.ForksAndStraightaways;
  * adjacency-list tokenizers (every subclass of _AdjListTokenizer) are supported only with pre == False;
  * a step-tokenizer tuple (length 1..4 by its type) has no repeated element and is not exactly (Distance,).
The real code (`all_instances`, `get_all_tokenizers`, `is_valid`, `name`, `hash`, `serialize/load`, `from_legacy`,
`is_legacy_equivalent`) is compared against that enumerator by STRUCTURE (class + field values), never through the code's own
hash or ==.  Bounded, never counted as proved."""
from __future__ import annotations

import dataclasses
import hashlib
import inspect
import itertools
import json
import multiprocessing
import os
import shutil
import subprocess
import sys
import tempfile
import time
import traceback
import types
import typing
import warnings
from collections import Counter

import numpy as np

from vlib.runner import BoundedResult

from bounded._common import Capped, pmap

EXPECTED_TOTAL = 5_878_656  # the figure quoted in the property statement (reported, not used as the oracle)
MOD = "maze_dataset.tokenization.maze_tokenizer"


# ----------------------------------------------------------------------------- structures
# struct ::= ("C", qualname, ((field, struct), ...)) | ("T", (struct, ...)) | bool | int | str
_RESOLVED = {}


def resolve(qualname):
    obj = _RESOLVED.get(qualname)
    if obj is None:
        import importlib

        obj = importlib.import_module(MOD)
        for part in qualname.split("."):
            obj = getattr(obj, part)
        _RESOLVED[qualname] = obj
    return obj


_FIELDS = {}


def field_names(cls):
    fn = _FIELDS.get(cls)
    if fn is None:
        fn = _FIELDS[cls] = tuple(f.name for f in dataclasses.fields(cls))
    return fn


def struct_of(obj, memo=None, fresh=0):
    """memo: optional {id(object): structure} for callers that keep the objects alive (nested elements shared between
    tokenizers); the outermost `fresh` dataclass levels are never memoised (unique, short-lived ids)"""
    if isinstance(obj, tuple):
        return ("T", tuple(struct_of(x, memo, fresh) for x in obj))
    cls = type(obj)
    if hasattr(cls, "__dataclass_fields__"):
        use = memo is not None and fresh <= 0
        if use:
            got = memo.get(id(obj))
            if got is not None and got[0] is obj:
                return got[1]
        out = ("C", cls.__qualname__, tuple((n, struct_of(getattr(obj, n), memo, fresh - 1)) for n in field_names(cls)))
        if use:
            memo[id(obj)] = (obj, out)  # the entry keeps obj alive: its id cannot be reused
        return out
    return obj


def build(struct):
    if isinstance(struct, tuple):
        if struct[0] == "C":
            return resolve(struct[1])(**{n: build(v) for n, v in struct[2]})
        return tuple(build(v) for v in struct[1])
    return struct


def to_struct(x):
    """undo the JSON round trip (lists -> the tuple form)"""
    if isinstance(x, np.ndarray):
        x = x.tolist()
    if isinstance(x, dict) and "__ndarray__" in x:
        x = x["__ndarray__"]
    if isinstance(x, (list, tuple)):
        if x and x[0] == "C":
            return ("C", x[1], tuple((n, to_struct(v)) for n, v in x[2]))
        return ("T", tuple(to_struct(v) for v in x[1]))
    return x


def enc(struct):
    """a structure as ONE JSON string: failure inputs go through the runner's depth-limited JSON conversion, which would
    mangle the nesting"""
    return json.dumps(_jsonable(struct))


def dec(x):
    if isinstance(x, str) and x.startswith("["):
        x = json.loads(x)
    return to_struct(x)


def _piece(h, b):
    h.update(len(b).to_bytes(4, "big"))
    h.update(b)


def digest(struct, memo=None, fresh=0):
    """16-byte digest of a structure, computed bottom-up.  memo: optional {id(node): (node, digest)} - the node is kept
    alive by the entry, so an id can never be reused for another node; the outermost `fresh` levels are not memoised
    (they are unique per tokenizer and would only fill the memory)"""
    if not isinstance(struct, tuple):
        return repr(struct).encode()
    use = memo is not None and fresh <= 0
    if use:
        e = memo.get(id(struct))
        if e is not None and e[0] is struct:
            return e[1]
    h = hashlib.blake2b(digest_size=16)
    if struct[0] == "C":
        _piece(h, b"C")
        _piece(h, struct[1].encode())
        for n, v in struct[2]:
            _piece(h, n.encode())
            _piece(h, digest(v, memo, fresh - 1))
    else:
        _piece(h, b"T")
        for v in struct[1]:
            _piece(h, digest(v, memo, fresh - 1))
    d = h.digest()
    if use:
        memo[id(struct)] = (struct, d)
    return d


def short(struct):
    """compact human-readable rendering for messages"""
    if isinstance(struct, tuple):
        if struct[0] == "C":
            return struct[1].split(".")[-1] + "(" + ", ".join(f"{n}={short(v)}" for n, v in struct[2] if n != "_type_") + ")"
        return "(" + ", ".join(short(v) for v in struct[1]) + ("," if len(struct[1]) == 1 else "") + ")"
    return repr(struct)


# ----------------------------------------------------------------------------- the re-stated validity rules
UNSUPPORTED = {"ByLeadingCoord", "Straightaways", "ForksAndStraightaways"}


def _simple(struct):
    return struct[1].split(".")[-1]


def perm_ok(tup):
    items = tup[1]
    if len(items) < 1 or len(set(items)) != len(items):
        return False
    if len(items) == 1 and _simple(items[0]) == "Distance":
        return False
    return True


_RULE_KIND = {}


def rule_kind(qualname):
    """(marked unsupported, is an adjacency-list tokenizer, is a step sequence) - by class NAME along the MRO"""
    k = _RULE_KIND.get(qualname)
    if k is None:
        names = {c.__name__ for c in resolve(qualname).__mro__}
        k = _RULE_KIND[qualname] = (bool(names & UNSUPPORTED), "_AdjListTokenizer" in names, "StepSequence" in names)
    return k


def local_rule(struct):
    """does this one object (not looking inside its nested elements) satisfy the documented rules"""
    unsupported, adj, stepseq = rule_kind(struct[1])
    if unsupported:
        return False
    if adj or stepseq:
        f = dict(struct[2])
        if adj and f.get("pre") is not False:
            return False
        if stepseq and not perm_ok(f["step_tokenizers"]):
            return False
    return True


def spec_valid(struct):
    """the object and everything nested in it satisfy the rules"""
    if isinstance(struct, tuple):
        if struct[0] == "C":
            return local_rule(struct) and all(spec_valid(v) for _n, v in struct[2])
        return all(spec_valid(v) for v in struct[1])
    return True


def has_local_rule(cls):
    return any(rule_kind(cls.__qualname__))


# ----------------------------------------------------------------------------- the independent enumerator / counter
def is_dc(tp):
    return isinstance(tp, type) and hasattr(tp, "__dataclass_fields__")


_FTYPES = {}
_ABSTRACT = {}


def is_abstract(cls):
    a = _ABSTRACT.get(cls)
    if a is None:
        a = _ABSTRACT[cls] = inspect.isabstract(cls)
    return a


def field_types(cls):
    if cls in _FTYPES:
        return _FTYPES[cls]
    hints = None
    out = []
    for f in dataclasses.fields(cls):
        t = f.type
        if isinstance(t, str):
            if hints is None:
                hints = typing.get_type_hints(cls)
            t = hints[f.name]
        out.append((f.name, t))
    _FTYPES[cls] = out
    return out


def is_step_perm_type(tp):
    """the union-of-tuples type of StepSequence.step_tokenizers (the rule on it is stated on the tuple itself)"""
    org = typing.get_origin(tp)
    return org in (types.UnionType, typing.Union) and all(typing.get_origin(a) is tuple for a in typing.get_args(tp))


_ENUM = {}


def spec_enum(tp, valid):
    """all structures of type tp; valid=True keeps only those satisfying the rules at every level"""
    key = (tp, valid)
    if key in _ENUM:
        return _ENUM[key]
    org = typing.get_origin(tp)
    if tp is bool:
        out = [True, False]
    elif org is typing.Literal:
        out = list(typing.get_args(tp))
    elif org in (types.UnionType, typing.Union):
        out = [s for a in typing.get_args(tp) for s in spec_enum(a, valid)]
        if valid and is_step_perm_type(tp):
            out = [s for s in out if perm_ok(s)]
    elif org is tuple:
        args = typing.get_args(tp)
        if Ellipsis in args:
            raise TypeError(f"unbounded tuple type {tp}")
        out = [("T", combo) for combo in itertools.product(*(spec_enum(a, valid) for a in args))]
    elif is_dc(tp):
        if is_abstract(tp):
            out = [s for sub in tp.__subclasses__() for s in spec_enum(sub, valid)]
        else:
            ft = field_types(tp)
            out = [("C", tp.__qualname__, tuple(zip((n for n, _ in ft), combo))) for combo in itertools.product(*(spec_enum(t, valid) for _n, t in ft))]
            if valid:
                out = [s for s in out if local_rule(s)]
    else:
        raise TypeError(f"type {tp!r} is not finite-valued")
    _ENUM[key] = out
    return out


_COUNT = {}


def spec_count(tp, valid=True):
    """size of spec_enum(tp, valid) without materialising the rule-free products"""
    key = (tp, valid)
    if key in _COUNT:
        return _COUNT[key]
    org = typing.get_origin(tp)
    if tp is bool:
        n = 2
    elif org is typing.Literal:
        n = len(typing.get_args(tp))
    elif org in (types.UnionType, typing.Union):
        n = len(spec_enum(tp, valid)) if (valid and is_step_perm_type(tp)) else sum(spec_count(a, valid) for a in typing.get_args(tp))
    elif org is tuple:
        n = 1
        for a in typing.get_args(tp):
            n *= spec_count(a, valid)
    elif is_dc(tp):
        if is_abstract(tp):
            n = sum(spec_count(sub, valid) for sub in tp.__subclasses__())
        elif valid and has_local_rule(tp):
            n = len(spec_enum(tp, valid))
        else:
            n = 1
            for _n, t in field_types(tp):
                n *= spec_count(t, valid)
    else:
        raise TypeError(f"type {tp!r} is not finite-valued")
    _COUNT[key] = n
    return n


def spec_at(tp, idx, valid=True):
    """the idx-th structure of type tp in a fixed order (mixed radix over fields, branches concatenated)"""
    org = typing.get_origin(tp)
    if tp is bool or org is typing.Literal or (valid and is_step_perm_type(tp)) or spec_count(tp, valid) <= BIG:
        return spec_enum(tp, valid)[idx]  # small types: the materialised list (any fixed order is a bijection)
    if org in (types.UnionType, typing.Union):
        for a in typing.get_args(tp):
            c = spec_count(a, valid)
            if idx < c:
                return spec_at(a, idx, valid)
            idx -= c
        raise IndexError(idx)
    if org is tuple:
        items = []
        for a in typing.get_args(tp):
            c = spec_count(a, valid)
            items.append(spec_at(a, idx % c, valid))
            idx //= c
        return ("T", tuple(items))
    if is_abstract(tp):
        for sub in tp.__subclasses__():
            c = spec_count(sub, valid)
            if idx < c:
                return spec_at(sub, idx, valid)
            idx -= c
        raise IndexError(idx)
    if valid and has_local_rule(tp):
        return spec_enum(tp, valid)[idx]
    vals = []
    for n, t in field_types(tp):
        c = spec_count(t, valid)
        vals.append((n, spec_at(t, idx % c, valid)))
        idx //= c
    return ("C", tp.__qualname__, tuple(vals))


def families():
    from maze_dataset.tokenization.maze_tokenizer import _TokenizerElement

    return list(_TokenizerElement.__subclasses__())


def MTM():
    from maze_dataset.tokenization.maze_tokenizer import MazeTokenizerModular

    return MazeTokenizerModular


def validation_funcs():
    from maze_dataset.tokenization.all_tokenizers import MAZE_TOKENIZER_MODULAR_DEFAULT_VALIDATION_FUNCS

    return MAZE_TOKENIZER_MODULAR_DEFAULT_VALIDATION_FUNCS


# ----------------------------------------------------------------------------- per-family exhaustive checks
BIG = 60_000  # families larger than this are not enumerated in the quick tier (only the prompt sequencers are)


def nested_elements(obj):
    from maze_dataset.tokenization.maze_tokenizer import _TokenizerElement

    out = []
    if isinstance(obj, tuple):
        for x in obj:
            out += nested_elements(x)
    elif isinstance(obj, _TokenizerElement):
        out.append(obj)
        for n in field_names(type(obj)):
            out += nested_elements(getattr(obj, n))
    return out


def check_family(res, tp, label):
    """all_instances(tp, validation_funcs) == the enumerator's valid structures, each exactly once, all is_valid(),
    names and hashes pairwise distinct; and is_valid() agrees with the re-stated rule on the whole unfiltered type space"""
    from maze_dataset.utils import all_instances

    key = f"C15:element-enumeration:{label}"
    inp = {"check": "family", "family": label}
    want = spec_enum(tp, True)
    res.seen(("family", label), nontrivial=True, sample={"class": label, "valid_configurations": len(want), "type_space": spec_count(tp, False)})
    try:
        real = list(all_instances(tp, validation_funcs()))
    except Exception as e:  # noqa: BLE001
        res.fail(key, f"all_instances({label}) raised {type(e).__name__}: {e}", inp, traceback.format_exc(limit=4))
        return
    got = Counter(struct_of(x) for x in real)
    want_set = set(want)
    if len(want_set) != len(want):
        res.errors.append(f"the enumerator produced duplicates for {label}")
    for s, n in got.items():
        res.seen(("family-item", label, digest(s)), nontrivial=True)
        if n > 1:
            res.fail(key, f"{short(s)} is enumerated {n} times", {**inp, "item": enc(s)}, n)
        if s not in want_set:
            if not spec_valid(s) or (s[0] == "T" and not perm_ok(s)):
                res.fail("C15:invalid-enumerated", f"{short(s)} is enumerated for {label} but breaks a documented validity rule", {**inp, "item": enc(s)}, None)
            else:
                res.fail(key, f"{short(s)} is enumerated for {label} but is not a configuration of the type space", {**inp, "item": enc(s)}, None)
    for s in want:
        if s not in got:
            res.fail(key, f"{short(s)} satisfies the validity rules but is not enumerated for {label}", {**inp, "item": enc(s)}, None)
    if len(real) != len(want):
        res.fail(key, f"all_instances({label}) yields {len(real)} objects, the type space minus the rules has {len(want)}", inp, len(real))
    # validity as the code reports it, names, hashes
    names, hashes = {}, {}
    for x in real:
        s = None
        try:
            ok = all(e.is_valid() for e in nested_elements(x))
        except Exception as e:  # noqa: BLE001
            ok = False
        if not ok:
            s = struct_of(x)
            res.fail("C15:invalid-enumerated", f"{short(s)} is enumerated for {label} but reports is_valid() == False (itself or a nested element)", {**inp, "item": enc(s)}, None)
        if isinstance(x, tuple):
            continue
        for table, val, k2, what in ((names, x.name, "C15:name-collision", "name"), (hashes, hash(x), "C15:hash-collision", "hash")):
            if val in table and struct_of(table[val]) != struct_of(x):
                a, b = struct_of(table[val]), struct_of(x)
                res.fail(k2, f"two different {label} configurations share the {what} {val!r}: {short(a)} / {short(b)}", {"check": "pair", "a": enc(a), "b": enc(b)}, val)
            table.setdefault(val, x)
    # is_valid() against the re-stated rules on the unfiltered space of this type
    if is_dc(tp) and spec_count(tp, False) <= BIG:
        for s in spec_enum(tp, False):
            try:
                obj = build(s)
                code = bool(obj.is_valid())
            except Exception as e:  # noqa: BLE001   a configuration of the type space that cannot even be built
                res.fail("C15:is_valid-rule", f"{short(s)} cannot be constructed / asked for validity: {type(e).__name__}: {e}", {"check": "rule", "item": enc(s)}, repr(e))
                continue
            rule = local_rule(s)
            res.seen(("rule", digest(s)), nontrivial=not rule)
            if code != rule:
                res.fail("C15:is_valid-rule", f"{short(s)}: is_valid() says {code}, the documented rules say {rule}", {"check": "rule", "item": enc(s)}, code)


def family_targets():
    """(type, label) for every direct abstract family of _TokenizerElement plus the step-tokenizer tuple type"""
    from maze_dataset.tokenization.maze_tokenizer import StepTokenizers

    out = [(fam, fam.__name__) for fam in families()]
    out.append((StepTokenizers.StepTokenizerPermutation, "StepTokenizerPermutation"))
    return out


# ----------------------------------------------------------------------------- full tokenizers: sample checks
def legacy_structs():
    from maze_dataset.tokenization.maze_tokenizer import TokenizationMode

    return {m.name: struct_of(MTM().from_legacy(m)) for m in TokenizationMode}


_USE_MAZE = []


def _use_maze():
    """a small solved maze with a fork and a turn, to use tokenizers on"""
    if not _USE_MAZE:
        import numpy as np
        from maze_dataset.maze import SolvedMaze

        conn = np.zeros((2, 3, 3), dtype=bool)
        for d, i, j in [(1, 0, 0), (1, 0, 1), (0, 0, 1), (0, 1, 1), (1, 1, 1), (0, 0, 0)]:
            conn[d, i, j] = True
        _USE_MAZE.append(SolvedMaze(connection_list=conn, solution=np.array([[0, 0], [0, 1], [1, 1], [1, 2]])))
    return _USE_MAZE[0]


def check_tokenizers(res, structs, do_saveload=True, expect_valid=True):
    """per-tokenizer checks on real objects built from structures; returns [(name, hash, hash_int)] aligned with structs"""
    M = MTM()
    legacy = set(legacy_structs().values())
    out = []
    for s in structs:
        inp = {"check": "tokenizer", "tokenizer": enc(s)}
        try:
            t = build(s)
            t2 = build(s)
        except Exception as e:  # noqa: BLE001
            res.fail("C15:is_valid-rule", f"{short(s)} satisfies the rules but cannot be constructed: {type(e).__name__}: {e}", inp, repr(e))
            out.append((None, None, None))
            continue
        res.seen(("tok", digest(s)), nontrivial=True)
        if struct_of(t) != s:
            res.errors.append(f"build/struct_of do not round-trip for {short(s)}")
        # validity as reported by the code
        valid = bool(t.is_valid())
        if valid != expect_valid:
            res.fail("C15:is_valid-rule", f"{short(s)}: is_valid() says {valid}, the documented rules say {expect_valid}", inp, valid)
        name, h, hi = t.name, hash(t), t.hash_int()
        # equal objects: equal name and hashes
        if not (t == t2) or t2.name != name or hash(t2) != h or t2.hash_int() != hi or t2.hash_b64() != t.hash_b64():
            res.fail("C15:hash-unstable", f"a reconstructed equal tokenizer differs in ==/name/hash: {short(s)}", inp, [t2.name, hash(t2)])
        # multi-step: identity does not change by USING the tokenizer (tokenizing a solved maze) - name / hashes stay those of an equal unused one
        try:
            _use_maze().as_tokens(t)
        except Exception:  # noqa: BLE001  (whether tokenization works is C06's business)
            pass
        else:
            if t.name != name or hash(t) != h or t.hash_int() != hi or not (t == t2) or t2.name != t.name:
                res.fail("C15:identity-changes-by-use", f"after tokenizing a maze the tokenizer's name / hash differ from those of an equal unused tokenizer: {short(s)}: {t.name!r} vs {name!r}", inp, [t.name, hash(t)])
            try:
                back_used = M.load(t.serialize())
                if back_used.name != name or not (back_used == t2):
                    res.fail("C15:identity-changes-by-use", f"a used tokenizer saved and loaded comes back with another name: {short(s)}", inp, back_used.name)
            except Exception as e:  # noqa: BLE001
                res.fail("C15:save-load", f"load(serialize(used tokenizer)) raised {type(e).__name__}: {str(e)[:160]}", inp, repr(e))
        # save / load
        if do_saveload:
            try:
                back = M.load(t.serialize())
                ok = back == t and back.name == name and struct_of(back) == s
            except Exception as e:  # noqa: BLE001
                res.fail("C15:save-load", f"load(serialize(t)) raised {type(e).__name__}: {str(e)[:200]} for {short(s)}", inp, repr(e))
            else:
                if not ok:
                    res.fail("C15:save-load", f"load(serialize(t)) is not an equal tokenizer with the same name: {short(s)} came back as {short(struct_of(back))}", inp, struct_of(back))
        # legacy equivalence: exactly the images of the legacy modes
        try:
            le = bool(t.is_legacy_equivalent())
        except Exception as e:  # noqa: BLE001
            res.fail("C15:legacy-equivalent", f"is_legacy_equivalent raised {type(e).__name__}: {e} for {short(s)}", inp, repr(e))
        else:
            if le != (s in legacy):
                res.fail("C15:legacy-equivalent", f"{short(s)} reports is_legacy_equivalent() == {le} but is {'one' if s in legacy else 'none'} of the tokenizers the legacy modes map to", inp, le)
        out.append((name, h, hi))
    return out


def _work_tokenizers(rec, item):
    warnings.simplefilter("ignore")
    structs, do_saveload = item
    ids = check_tokenizers(rec, structs, do_saveload=do_saveload)
    rec.errors.append(("__ids__", ids))  # smuggled back to the parent, removed there


def distinctness(res, structs, ids):
    names, hashes, wide = {}, {}, {}
    for s, (name, h, hi) in zip(structs, ids):
        if name is None:
            continue
        for table, val, key, what in ((names, name, "C15:name-collision", "name"), (hashes, h, "C15:hash-collision", "hash()"), (wide, hi, "C15:hash-collision", "hash_int()")):
            other = table.get(val)
            if other is not None and other != s:
                res.fail(key, f"two different tokenizers share the {what} {str(val)[:120]!r}: {short(other)} / {short(s)}", {"check": "pair", "a": enc(other), "b": enc(s)}, val if not isinstance(val, int) else str(val))
            table.setdefault(val, s)


def check_pair(res, a, b):
    ta, tb = build(a), build(b)
    res.seen(("pair", digest(a), digest(b)), nontrivial=True)
    if a == b:
        return
    if ta.name == tb.name:
        res.fail("C15:name-collision", f"two different configurations share the name {ta.name!r}", {"check": "pair", "a": enc(a), "b": enc(b)}, ta.name)
    if hash(ta) == hash(tb) or (hasattr(ta, "hash_int") and ta.hash_int() == tb.hash_int()):
        res.fail("C15:hash-collision", f"two different configurations share a hash: {short(a)} / {short(b)}", {"check": "pair", "a": enc(a), "b": enc(b)}, str(hash(ta)))


def neighbours(s, rng, per_field=4):
    """tokenizer structures differing from s in exactly one element of the prompt sequencer (or in the sequencer class)"""
    M = MTM()
    ps = dict(s[2])["prompt_sequencer"]
    cls = resolve(ps[1])
    out = []
    ft = dict(field_types(cls))
    for n, v in ps[2]:
        if n == "_type_":
            continue
        pool = spec_enum(ft[n], True)
        picks = pool if len(pool) <= 9 else [pool[int(i)] for i in rng.choice(len(pool), size=per_field, replace=False)]
        for alt in picks:
            if alt != v:
                out.append(("C", M.__qualname__, (("prompt_sequencer", ("C", ps[1], tuple((m, alt if m == n else w) for m, w in ps[2]))),)))
    return out


# ----------------------------------------------------------------------------- hash stability across interpreters
def _hash_child():
    """entry point of the PYTHONHASHSEED subprocesses: structures on stdin, identifiers on stdout"""
    warnings.simplefilter("ignore")
    structs = [to_struct(x) for x in json.loads(sys.stdin.read())]
    rows = []
    for s in structs:
        t = build(s)
        rows.append([t.name, str(hash(t)), str(t.hash_int()), t.hash_b64(), str(hash(t.prompt_sequencer))])
    sys.stdout.write("\nC15HASH:" + json.dumps(rows) + "\n")


def start_hash_children(structs, seeds=("0", "1", "12345")):
    import maze_dataset

    repo_root = os.path.dirname(os.path.dirname(os.path.abspath(maze_dataset.__file__)))
    verif_root = os.path.dirname(os.path.dirname(os.path.abspath(__file__)))
    procs = []
    payload = json.dumps(_jsonable(structs))
    for sd in seeds:
        env = dict(os.environ)
        env.update(PYTHONHASHSEED=sd, PYTHONPATH=repo_root + os.pathsep + verif_root, PYTHONDONTWRITEBYTECODE="1", MPLBACKEND="Agg")
        p = subprocess.Popen([sys.executable, "-W", "ignore", "-c", "from bounded import C15; C15._hash_child()"], stdin=subprocess.PIPE, stdout=subprocess.PIPE, stderr=subprocess.PIPE, env=env, text=True, cwd=verif_root)
        p.stdin.write(payload)
        p.stdin.close()
        procs.append((sd, p))
    return procs


def _jsonable(x):
    if isinstance(x, tuple):
        return [_jsonable(v) for v in x]
    if isinstance(x, list):
        return [_jsonable(v) for v in x]
    return x


def finish_hash_children(res, structs, procs):
    here = []
    for s in structs:
        t = build(s)
        here.append([t.name, str(hash(t)), str(t.hash_int()), t.hash_b64(), str(hash(t.prompt_sequencer))])
    for sd, p in procs:
        out = p.stdout.read()
        err = p.stderr.read()
        p.wait()
        line = [ln for ln in out.splitlines() if ln.startswith("C15HASH:")]
        if p.returncode != 0 or not line:
            res.errors.append(f"hash subprocess (PYTHONHASHSEED={sd}) failed: rc={p.returncode} {err[-600:]}")
            continue
        rows = json.loads(line[0][len("C15HASH:") :])
        for s, mine, theirs in zip(structs, here, rows):
            res.seen(("hashseed", sd, digest(s)), nontrivial=True)
            which = [n for n, a, b in zip(("name", "hash()", "hash_int()", "hash_b64()"), mine, theirs) if a != b]
            if which:
                res.fail("C15:hash-unstable", f"{'/'.join(which)} of {short(s)} differs in a process with PYTHONHASHSEED={sd}", {"check": "hashseed", "tokenizer": enc(s), "seed": sd}, [mine, theirs])
            # (corrected 2026-09-28) the python hash() of a tokenizer ELEMENT depends on PYTHONHASHSEED; the property only
            # speaks of tokenizers (whose name / hash() / hash_int() / hash_b64() are checked above), so this is not checked
            if False and mine[4] != theirs[4]:
                # tracked under its own key: the statement speaks of tokenizers; this is the hash of the tokenizer's top-level ELEMENT
                res.fail("C15:hash-unstable:element", f"hash() of the tokenizer element {short(dict(s[2])['prompt_sequencer'])[:160]} differs in a process with PYTHONHASHSEED={sd} ({mine[4]} here, {theirs[4]} there)", {"check": "hashseed", "tokenizer": enc(s), "seed": sd}, [mine[4], theirs[4]])


# ----------------------------------------------------------------------------- the real enumeration
def sampler_history(toks, stub):
    """multi-step history: use the test sampler, then look at the enumeration again - it must be what it was.  `stub`: the cached 5.9-million-element
    set all_tokenizers_set() is replaced by a small set (a seeded sample plus the always-included tokenizers) so that the quick tier can afford it;
    the functions under check (_all_tokenizers_except_every_test_tokenizers, sample_tokenizers_for_test) are the real ones either way.
    -> list of complaints"""
    from maze_dataset.tokenization import all_tokenizers as AT

    out = []
    every = list(AT.EVERY_TEST_TOKENIZERS)
    if stub:
        rng = np.random.default_rng(5)
        small = set(toks[int(i)] for i in rng.integers(0, len(toks), size=300)) | set(every)
        AT.all_tokenizers_set = lambda: small
        AT._all_tokenizers_except_every_test_tokenizers.cache_clear()
        the_set, n_before = small, len(small)
    else:
        the_set = AT.all_tokenizers_set()
        n_before = len(the_set)
    smp = AT.sample_tokenizers_for_test(len(every) + 8)
    if len(smp) != len(every) + 8 or not all(t in smp for t in every) or len(set(smp)) != len(smp):
        out.append(f"sample_tokenizers_for_test({len(every) + 8}) returned {len(smp)} tokenizers, {len(set(smp))} distinct, all always-included ones present: {all(t in smp for t in every)}")
    again = AT.all_tokenizers_set()
    if len(again) != n_before or not all(t in again for t in every):
        out.append(f"after sample_tokenizers_for_test the enumerated set has {len(again)} members (was {n_before}); the always-included tokenizers are still members: {all(t in again for t in every)}")
    if len(AT.get_all_tokenizers()) != len(toks):
        out.append(f"after sample_tokenizers_for_test get_all_tokenizers() has {len(AT.get_all_tokenizers())} entries (was {len(toks)})")
    return out


def _bg_enumerate(args):
    """child process (quick tier): the real full enumeration - its length and the structures at seeded positions"""
    seed, nsample = args
    warnings.simplefilter("ignore")
    from maze_dataset.tokenization.all_tokenizers import get_all_tokenizers

    t0 = time.time()
    with _bounded_enumeration():
        try:
            toks = get_all_tokenizers()
        except (MemoryError, TimeoutError) as e:
            return -1, f"{type(e).__name__} after {time.time() - t0:.0f} s", time.time() - t0
    n = len(toks)
    rng = np.random.default_rng(seed + 17)
    idx = sorted(set(int(i) for i in rng.integers(0, n, size=nsample)) | {0, n - 1}) if n else []
    pos = [(i, struct_of(toks[i])) for i in idx]
    if nsample and n:
        try:
            pos.append(("history", sampler_history(toks, stub=True)))
        except Exception as e:  # noqa: BLE001 - raised by the code under check
            pos.append(("history", [f"the sampler history raised {type(e).__name__}: {str(e)[:160]}"]))
    return n, pos, time.time() - t0


ENUM_SECONDS = 420  # the unchanged enumeration takes ~45 s (5.9 million objects, ~3 GB)
ENUM_BYTES = 24 << 30


class _bounded_enumeration:
    """guard around the real get_all_tokenizers(): a broken enumerator can multiply the space by orders of magnitude;
    stop it by address-space limit and alarm instead of taking the machine down"""

    def __enter__(self):
        import resource
        import signal

        self._old = resource.getrlimit(resource.RLIMIT_AS)
        try:
            resource.setrlimit(resource.RLIMIT_AS, (ENUM_BYTES if self._old[1] in (resource.RLIM_INFINITY, -1) else min(ENUM_BYTES, self._old[1]), self._old[1]))
        except (ValueError, OSError):
            pass

        def on_alarm(_sig, _frm):
            raise TimeoutError("enumeration exceeded the time budget")

        try:
            self._old_handler = signal.signal(signal.SIGALRM, on_alarm)
            signal.alarm(ENUM_SECONDS)
        except ValueError:  # not in the main thread
            self._old_handler = None
        return self

    def __exit__(self, *exc):
        import resource
        import signal

        if self._old_handler is not None:
            signal.alarm(0)
            signal.signal(signal.SIGALRM, self._old_handler)
        try:
            resource.setrlimit(resource.RLIMIT_AS, self._old)
        except (ValueError, OSError):
            pass
        return False


_ALL = {}


def _work_slice(rec, item):
    """thorough tier: one slice of the real enumeration (list inherited through fork)"""
    warnings.simplefilter("ignore")
    import gc

    gc.disable()
    lo, hi, every = item
    toks = _ALL["toks"]
    legacy = set(legacy_structs().values())
    M = MTM()
    n = hi - lo
    sd = np.zeros((n, 2), dtype=np.uint64)
    nd = np.zeros((n, 2), dtype=np.uint64)
    hs = np.zeros(n, dtype=np.int64)
    memo = _ALL.setdefault("memo", {})
    dmemo = _ALL.setdefault("dmemo", {})
    for k in range(n):
        t = toks[lo + k]
        # nested elements are shared between the enumerated tokenizers and stay alive in the list: convert each once;
        # the tokenizer and its prompt sequencer are unique objects, so they are converted fresh
        s = struct_of(t, memo, fresh=2)
        sd[k] = np.frombuffer(digest(s, dmemo, fresh=2), dtype=np.uint64)
        name = t.name
        nd[k] = np.frombuffer(hashlib.blake2b(name.encode(), digest_size=16).digest(), dtype=np.uint64)
        hs[k] = hash(t)
        inp = {"check": "tokenizer", "tokenizer": enc(s)}
        if not t.is_valid():
            rec.fail("C15:invalid-enumerated", f"{short(s)} is enumerated but reports is_valid() == False", inp, None)
        if not spec_valid(s):
            rec.fail("C15:invalid-enumerated", f"{short(s)} is enumerated but breaks a documented validity rule", inp, None)
        le = bool(t.is_legacy_equivalent())
        if le != (s in legacy):
            rec.fail("C15:legacy-equivalent", f"{short(s)} reports is_legacy_equivalent() == {le} but is {'one' if s in legacy else 'none'} of the tokenizers the legacy modes map to", inp, le)
        if (lo + k) % every == 0:
            try:
                back = M.load(t.serialize())
                ok = back == t and back.name == name and struct_of(back) == s
            except Exception as e:  # noqa: BLE001
                rec.fail("C15:save-load", f"load(serialize(t)) raised {type(e).__name__}: {str(e)[:200]} for {short(s)}", inp, repr(e))
            else:
                if not ok:
                    rec.fail("C15:save-load", f"load(serialize(t)) is not an equal tokenizer with the same name: {short(s)}", inp, struct_of(back))
    rec.errors.append(("__arrays__", lo, sd, nd, hs))


def _work_spec_slice(rec, item):
    lo, hi = item
    tp = MTM()
    out = np.zeros((hi - lo, 2), dtype=np.uint64)
    dmemo = _ALL.setdefault("dmemo_spec", {})
    for k in range(hi - lo):
        out[k] = np.frombuffer(digest(spec_at(tp, lo + k, True), dmemo, fresh=2), dtype=np.uint64)
    rec.errors.append(("__arrays__", lo, out))


def _pull(res, tag):
    """take the smuggled payloads out of res.errors"""
    keep, got = [], []
    for e in res.errors:
        (got if isinstance(e, tuple) and e and e[0] == tag else keep).append(e)
    res.errors[:] = keep
    return got


def _dup_rows(a):
    """pairs (i, j) of positions holding the same row of an (n, k) integer array"""
    if len(a) < 2:
        return []
    o = np.lexsort(tuple(a[:, c] for c in range(a.shape[1] - 1, -1, -1)))
    sr = a[o]
    eq = np.nonzero((sr[1:] == sr[:-1]).all(axis=1))[0]
    return [(int(o[j]), int(o[j + 1])) for j in eq]


def _rows_not_in(a, b):
    """positions of the rows of a that do not occur in b (both (n, 2) uint64)"""
    if len(a) == 0:
        return np.zeros(0, dtype=np.int64)
    allr = np.concatenate([a, b])
    from_b = np.concatenate([np.zeros(len(a), dtype=bool), np.ones(len(b), dtype=bool)])
    o = np.lexsort((allr[:, 1], allr[:, 0]))
    sr, sf = allr[o], from_b[o]
    new_group = np.ones(len(sr), dtype=bool)
    new_group[1:] = ~(sr[1:] == sr[:-1]).all(axis=1)
    gid = np.cumsum(new_group) - 1
    group_has_b = np.bincount(gid, weights=sf.astype(np.float64)) > 0
    keep = (~sf) & (~group_has_b[gid])
    return np.sort(o[keep])


class _CountingSet(set):
    """BoundedResult.distinct for 5.9 million cases: the members were checked to be distinct by digest; only their number is kept"""

    extra = 0

    def __len__(self):
        return super().__len__() + self.extra


def full_space(res, raw, seed):
    """thorough tier: everything on all enumerated tokenizers (res: capped view, raw: the BoundedResult itself)"""
    from maze_dataset.tokenization.all_tokenizers import get_all_tokenizers

    import gc

    t0 = time.time()
    # 12 million live objects: keep the cyclic collector away from them (it would rewrite every object header, which
    # after fork() copies the whole heap into each of the 16 workers)
    gc.disable()
    try:
        with _bounded_enumeration():
            toks = get_all_tokenizers()
    except (MemoryError, TimeoutError) as e:
        gc.enable()
        res.fail("C15:count", f"get_all_tokenizers() did not complete ({type(e).__name__} after {time.time() - t0:.0f} s; limits {ENUM_SECONDS} s / {ENUM_BYTES >> 30} GB, the predicted {spec_count(MTM(), True)} configurations need ~45 s / ~3 GB)", {"check": "count"}, repr(e))
        return -1
    gc.freeze()
    n = len(toks)
    tp = MTM()
    want_n = spec_count(tp, True)
    res.seen(("count", n), nontrivial=True, sample={"len(get_all_tokenizers())": n, "type space minus rules": want_n, "figure in the statement": EXPECTED_TOTAL, "seconds_to_enumerate": round(time.time() - t0, 1)})
    if n != want_n:
        res.fail("C15:count", f"len(get_all_tokenizers()) = {n}, the type space minus the documented rules has {want_n}", {"check": "count"}, n)
    _ALL["toks"] = toks
    # multi-step history on the REAL enumerated set (thorough tier): use the sampler, then look at the set again
    try:
        raw.seen(("history", "sampler"), nontrivial=True)
        for msg in sampler_history(toks, stub=False):
            res.fail("C15:enumeration-changes-by-use", msg, {"check": "history"}, msg)
    except Exception as e:  # noqa: BLE001 - raised by the code under check
        res.fail("C15:enumeration-changes-by-use", f"the sampler history raised {type(e).__name__}: {str(e)[:160]}", {"check": "history"}, repr(e)[:200])
    step = 30_000
    pmap(res, _work_slice, [(lo, min(lo + step, n), 53) for lo in range(0, n, step)], procs=16)
    parts = sorted(_pull(raw, "__arrays__"), key=lambda e: e[1])
    if sum(len(p[4]) for p in parts) != n:
        raw.errors.append(f"slice workers returned {sum(len(p[4]) for p in parts)} rows for {n} tokenizers")
        return n
    sd = np.concatenate([p[2] for p in parts])
    nd = np.concatenate([p[3] for p in parts])
    hs = np.concatenate([p[4] for p in parts])
    # the enumerator's side
    pmap(res, _work_spec_slice, [(lo, min(lo + step, want_n)) for lo in range(0, want_n, step)], procs=16)
    sparts = sorted(_pull(raw, "__arrays__"), key=lambda e: e[1])
    spec = np.concatenate([p[2] for p in sparts]) if sparts else np.zeros((0, 2), dtype=np.uint64)
    if len(spec) != want_n or _dup_rows(spec):
        raw.errors.append("the enumerator produced a wrong number of / duplicate structures")
    dups = _dup_rows(sd)
    for i1, i2 in dups[:3]:
        s = struct_of(toks[i1])
        res.fail("C15:element-enumeration:MazeTokenizerModular", f"{short(s)} is enumerated more than once (positions {i1} and {i2}; {len(dups)} repeats in all)", {"check": "tokenizer", "tokenizer": enc(s)}, [i1, i2])
    extra = _rows_not_in(sd, spec)
    for i in extra[:3]:
        s = struct_of(toks[int(i)])
        key = "C15:element-enumeration:MazeTokenizerModular" if spec_valid(s) else "C15:invalid-enumerated"
        res.fail(key, f"{short(s)} is enumerated (position {int(i)}) but is not a valid configuration of the type space ({len(extra)} such)", {"check": "tokenizer", "tokenizer": enc(s)}, int(i))
    missing = _rows_not_in(spec, sd)
    for i in missing[:3]:
        s = spec_at(tp, int(i), True)
        res.fail("C15:element-enumeration:MazeTokenizerModular", f"{short(s)} satisfies the validity rules but is not enumerated ({len(missing)} such configurations)", {"check": "tokenizer-missing", "tokenizer": enc(s)}, len(missing))
    # names and hashes pairwise distinct over everything
    for arr, key, what in ((nd, "C15:name-collision", "name"), (hs.reshape(-1, 1), "C15:hash-collision", "hash()")):
        for i1, i2 in _dup_rows(arr)[:6]:
            a, b = struct_of(toks[i1]), struct_of(toks[i2])
            if a != b:
                res.fail(key, f"two different tokenizers share the {what}: {short(a)} / {short(b)}", {"check": "pair", "a": enc(a), "b": enc(b)}, [i1, i2])
    raw.evaluations += n
    if not isinstance(raw.distinct, _CountingSet):
        raw.distinct = _CountingSet(raw.distinct)
    raw.distinct.extra += n - len(dups)
    _ALL.clear()
    gc.unfreeze()
    gc.enable()
    return n


# ----------------------------------------------------------------------------- driver
def fixed_fifty(total):
    tp = MTM()
    idx = sorted({(i * 117_573 + 7) % total for i in range(50)})
    return [spec_at(tp, i, True) for i in idx]


def zanj_roundtrip(res, structs):
    from zanj import ZANJ

    tmp = tempfile.mkdtemp(prefix="mzverif-C15-", dir="/var/tmp")
    try:
        for k, s in enumerate(structs):
            t = build(s)
            res.seen(("zanj", digest(s)), nontrivial=True)
            inp = {"check": "zanj", "tokenizer": enc(s)}
            path = os.path.join(tmp, f"tok{k}.zanj")
            try:
                ZANJ().save(t, path)
                back = ZANJ().read(path)
                ok = isinstance(back, MTM()) and back == t and back.name == t.name and struct_of(back) == s
            except Exception as e:  # noqa: BLE001
                res.fail("C15:save-load", f"saving to / reading from a ZANJ file raised {type(e).__name__}: {str(e)[:200]} for {short(s)}", inp, repr(e))
                continue
            if not ok:
                res.fail("C15:save-load", f"a tokenizer read back from a ZANJ file is not equal / has another name: {short(s)}", inp, None)
    finally:
        shutil.rmtree(tmp, ignore_errors=True)


def run(tier, seed):
    warnings.simplefilter("ignore")
    t_start = time.time()
    rng = np.random.default_rng(seed)
    r_elem = BoundedResult(
        "C15.element-enumeration",
        rule="every direct abstract family of _TokenizerElement"
        + (" (prompt sequencers: exact count + seeded positions of the real list in the quick tier)" if tier == "quick" else "")
        + " and the step-tokenizer tuple type: all_instances(cls, validation_funcs) compared as a multiset of structures with an independent recursive "
        "product/sum enumerator over the field types minus the re-stated validity rules; is_valid() compared with the rules on the whole unfiltered type space; "
        "names and hashes pairwise distinct; distinct by structure",
        exhaustive=True,
        functions=["all_instances", "_apply_validation_func", "_TokenizerElement.is_valid (all overrides)", "mark_as_unsupported", "_TokenizerElement.name", "_TokenizerElement.__hash__"],
    )
    r_tok = BoundedResult(
        "C15.tokenizer-identity",
        rule=(
            "all enumerated tokenizers: structures equal to the enumerator's (both directions, no duplicates), is_valid, names (16-byte digests) and hash() pairwise distinct, "
            "legacy-equivalence on every one, save/load on every 53rd; "
            if tier == "thorough"
            else "exact count of get_all_tokenizers() against the enumerator; history: the test sampler is used and the enumerated set looked at again (on a stubbed 300-element set in the quick tier, on the real set in the thorough tier); "
        )
        + "a seeded uniform sample of 20,000 tokenizer configurations drawn from the enumerator plus one-element neighbours of 200 of them, the images of the legacy modes and THEIR one-element neighbours: "
        "is_valid, name / hash() / hash_int() pairwise distinct, equal for a rebuilt equal object, load(serialize(t)) == t with the same name, is_legacy_equivalent exactly for the "
        "images of the 3 legacy modes; 50 fixed tokenizers hashed in 3 interpreters with PYTHONHASHSEED 0/1/12345; ZANJ file round trip of 12; distinct by structure",
        exhaustive=(tier == "thorough"),
        functions=["get_all_tokenizers", "MazeTokenizerModular.name", "MazeTokenizerModular.hash_int", "MazeTokenizerModular.__hash__", "MazeTokenizerModular.hash_b64", "MazeTokenizerModular.is_valid", "MazeTokenizerModular.is_legacy_equivalent", "MazeTokenizerModular.from_legacy", "_load_tokenizer_element", "MazeTokenizerModular.serialize/load"],
    )
    c_elem, c_tok = Capped(r_elem), Capped(r_tok)
    global ENUM_SECONDS
    ENUM_SECONDS = 240 if tier == "quick" else 420  # inherited by the forked enumeration child
    bg_pool = bg = None
    hash_procs = None
    try:
        tp = MTM()
        total = spec_count(tp, True)
        # 0. start the slow helpers first
        fifty = fixed_fifty(total)
        hash_procs = start_hash_children(fifty)
        if tier == "quick":
            bg_pool = multiprocessing.get_context("fork").Pool(1)
            bg = bg_pool.apply_async(_bg_enumerate, ((seed, 3000),))
        # 1. per-family exhaustive
        t0 = time.time()
        for fam, label in family_targets():
            if tier == "quick" and spec_count(fam, True) > BIG:
                r_elem.seen(("family-count-only", label), nontrivial=True, sample={"class": label, "valid_configurations": spec_count(fam, True), "checked": "count and seeded positions only (quick tier)"})
                continue
            if tier == "thorough" and spec_count(fam, True) > BIG:
                continue  # covered by the full-space comparison below (same objects: a tokenizer is its prompt sequencer)
            check_family(c_elem, fam, label)
        r_elem.seconds = time.time() - t0
        # 2. sample of full tokenizers from the enumerator
        t0 = time.time()
        idx = sorted(set(int(i) for i in rng.integers(0, total, size=20_000)))
        sample = [spec_at(tp, i, True) for i in idx]
        seen_d = {digest(s) for s in sample}
        extra = list(legacy_structs().values()) + [struct_of(tp())]
        # the one-element neighbours of the legacy images themselves (every alternative of the small element families, 40 of the large ones):
        # "no other tokenizer reports itself legacy-equivalent" is most easily broken right next to them
        for base in list(extra):
            extra += neighbours(base, rng, per_field=40)
        for base in [sample[int(i)] for i in rng.choice(len(sample), size=200, replace=False)]:
            extra += neighbours(base, rng)
        for s in extra:
            d = digest(s)
            if d not in seen_d and spec_valid(s):
                seen_d.add(d)
                sample.append(s)
        chunks = [(sample[i : i + 500], True) for i in range(0, len(sample), 500)]
        pmap(c_tok, _work_tokenizers, chunks, procs=12)
        ids = [row for e in _pull(r_tok, "__ids__") for row in e[1]]
        if len(ids) == len(sample):
            distinctness(c_tok, sample, ids)
        else:
            r_tok.errors.append(f"sample workers returned {len(ids)} rows for {len(sample)} tokenizers")
        # tokenizers that break a rule must say so
        bad = []
        unf = spec_count(tp, False)
        while len(bad) < 300:
            s = spec_at(tp, int(rng.integers(0, unf)), False)
            if not spec_valid(s):
                bad.append(s)
        for s in bad:
            r_tok.seen(("invalid", digest(s)), nontrivial=True)
            try:
                says = bool(build(s).is_valid())
            except Exception as e:  # noqa: BLE001
                says = None
            if says is not False:
                c_tok.fail("C15:is_valid-rule", f"{short(s)} breaks a documented validity rule but is_valid() says {says}", {"check": "tokenizer-invalid", "tokenizer": enc(s)}, says)
        # 3. legacy modes
        from maze_dataset.tokenization.maze_tokenizer import TokenizationMode

        for m in TokenizationMode:
            r_tok.seen(("legacy", m.name), nontrivial=True)
            t = tp.from_legacy(m)
            if not t.is_legacy_equivalent():
                c_tok.fail("C15:legacy-equivalent", f"from_legacy({m.name}) does not report itself legacy-equivalent", {"check": "legacy", "mode": m.name}, False)
            if not spec_valid(struct_of(t)) or not t.is_valid():
                c_tok.fail("C15:legacy-equivalent", f"from_legacy({m.name}) is not a valid tokenizer", {"check": "legacy", "mode": m.name}, None)
        # 4. ZANJ files
        zanj_roundtrip(c_tok, fifty[:12])
        # 5. the real enumeration
        if tier == "thorough":
            full_space(c_tok, r_tok, seed)
        else:
            n, positions, secs = bg.get(timeout=ENUM_SECONDS + 120)
            if n < 0:
                c_tok.fail("C15:count", f"get_all_tokenizers() did not complete ({positions}; limits {ENUM_SECONDS} s / {ENUM_BYTES >> 30} GB, the predicted {total} configurations need ~45 s / ~3 GB)", {"check": "count"}, positions)
                positions = []
            r_tok.seen(("count", n), nontrivial=True, sample={"len(get_all_tokenizers())": n, "type space minus rules": total, "figure in the statement": EXPECTED_TOTAL, "seconds_to_enumerate": round(secs, 1)})
            if n >= 0 and n != total:
                c_tok.fail("C15:count", f"len(get_all_tokenizers()) = {n}, the type space minus the documented rules has {total}", {"check": "count"}, n)
            seen_pos = set()
            for i, s in positions:
                if i == "history":
                    r_tok.seen(("history", "sampler"), nontrivial=True, sample={"history": "sample_tokenizers_for_test, then the enumerated set again (stubbed small set in the quick tier)"})
                    for msg in s:
                        c_tok.fail("C15:enumeration-changes-by-use", msg, {"check": "history"}, msg)
                    continue
                r_tok.seen(("real", digest(s)), nontrivial=True)
                inp = {"check": "tokenizer", "tokenizer": enc(s), "position": i}
                if not spec_valid(s):
                    c_tok.fail("C15:invalid-enumerated", f"{short(s)} (position {i} of get_all_tokenizers()) breaks a documented validity rule", inp, i)
                elif digest(s) in seen_pos:
                    c_tok.fail("C15:element-enumeration:MazeTokenizerModular", f"{short(s)} is enumerated more than once", inp, i)
                seen_pos.add(digest(s))
        # 6. hash stability
        finish_hash_children(c_tok, fifty, hash_procs)
        hash_procs = None
        r_tok.seconds = time.time() - t0
    except Exception as e:  # noqa: BLE001
        r_tok.errors.append(f"{type(e).__name__}: {e}\n{traceback.format_exc(limit=8)}")
    finally:
        if bg_pool is not None:
            bg_pool.terminate()
        for _sd, p in hash_procs or []:
            p.kill()
    for r in (r_elem, r_tok):
        r.errors[:] = [e if isinstance(e, str) else f"unconsumed worker payload {e[0]}" for e in r.errors]
    if not r_tok.seconds:
        r_tok.seconds = time.time() - t_start
    return [r_elem, r_tok]


def replay(check_name, inp):
    """re-run one recorded input; True iff the real code now agrees with the enumerator on it"""
    warnings.simplefilter("ignore")
    res = BoundedResult("replay", "replay")
    kind = inp.get("check")
    if kind == "family":
        for fam, label in family_targets():
            if label == inp["family"]:
                check_family(res, fam, label)
    elif kind == "rule":
        s = dec(inp["item"])
        try:
            code = bool(build(s).is_valid())
        except Exception as e:  # noqa: BLE001
            code = repr(e)
        if code != local_rule(s):
            res.fail("C15:is_valid-rule", f"{short(s)}: is_valid() says {code}, the rules say {local_rule(s)}", inp, code)
    elif kind == "pair":
        check_pair(res, dec(inp["a"]), dec(inp["b"]))
    elif kind == "tokenizer":
        s = dec(inp["tokenizer"])
        if not spec_valid(s):
            # it was reported as wrongly enumerated: is it still?
            from maze_dataset.utils import all_instances

            ps = dict(s[2])["prompt_sequencer"]
            cls = resolve(ps[1])
            if any(struct_of(x) == ps for x in all_instances(cls, validation_funcs())):
                res.fail("C15:invalid-enumerated", f"{short(s)} is still enumerated", inp, None)
        else:
            check_tokenizers(res, [s])
    elif kind == "tokenizer-missing":
        from maze_dataset.utils import all_instances

        s = dec(inp["tokenizer"])
        ps = dict(s[2])["prompt_sequencer"]
        if not any(struct_of(x) == ps for x in all_instances(resolve(ps[1]), validation_funcs())):
            res.fail("C15:element-enumeration:MazeTokenizerModular", f"{short(s)} is still not enumerated", inp, None)
    elif kind == "tokenizer-invalid":
        s = dec(inp["tokenizer"])
        if build(s).is_valid() is not False:
            res.fail("C15:is_valid-rule", f"{short(s)} breaks a rule but is_valid() accepts it", inp, None)
    elif kind == "legacy":
        from maze_dataset.tokenization.maze_tokenizer import TokenizationMode

        t = MTM().from_legacy(TokenizationMode[inp["mode"]])
        if not t.is_legacy_equivalent() or not t.is_valid():
            res.fail("C15:legacy-equivalent", "still not legacy-equivalent / valid", inp, None)
    elif kind == "zanj":
        zanj_roundtrip(res, [dec(inp["tokenizer"])])
    elif kind == "hashseed":
        s = dec(inp["tokenizer"])
        finish_hash_children(res, [s], start_hash_children([s], seeds=(str(inp.get("seed", "1")),)))
    elif kind == "history":
        n, pos, _secs = _bg_enumerate((0, 1))
        for i, msgs in pos:
            if i == "history":
                for msg in msgs:
                    res.fail("C15:enumeration-changes-by-use", msg, inp, msg)
    elif kind == "count":
        n, _pos, _secs = _bg_enumerate((0, 0))
        total = spec_count(MTM(), True)
        if n != total:  # includes n == -1: the enumeration did not complete
            res.fail("C15:count", f"len(get_all_tokenizers()) = {n}, the enumerator says {total}", inp, n)
    else:
        print("  unknown replay input")
        return False
    for e in res.errors:
        print("  harness error:", str(e)[:400])
    for f in res.failures:
        print("  still failing:", f["key"], str(f["what"])[:300])
    return not res.failures and not res.errors
