#!/bin/sh
# MANIFEST.setup_cmd: build the overlay venv from the offline wheelhouse and byte-compile the framework.
set -e
HERE="$(cd "$(dirname "$0")/.." && pwd)"
"$HERE/tools/mkvenv.sh"
"$HERE/.venv312/bin/python" -m compileall -q "$HERE/pyvc" "$HERE/vlib" "$HERE/contracts" "$HERE/props" "$HERE/bounded" >/dev/null 2>&1 || true
mkdir -p "$HERE/evidence" "$HERE/replays"
echo "setup ok"
