"""C01 - generators emit well-formed lattice graphs; DFS and Wilson emit spanning trees."""
ID = "C01"
LEVEL = "proof"
LEVEL_TEXT = (
    "Unbounded proof over all grid shapes r,c >= 1, all accepted arguments and ALL random draws (every draw is a fresh "
    "universally quantified value): every generator returns a bool (2,r,c) structure in which no connection leaves the grid; "
    "gen_dfs/gen_prim with default arguments and gen_wilson return a connected structure with exactly r*c-1 connections (a spanning "
    "tree); percolation with p=0 is empty and with p=1 contains every lattice edge. Loop invariants (tree over the visited cells, "
    "edge count = |visited|-1, frontier on the stack, loop-erased walk is a simple unvisited lattice path) are sidecar contracts checked "
    "against the real AST. A bounded stand-in additionally enumerates every random execution on small grids."
)
LEVEL_NOTE = (
    "Trusted: pyvc encoding; RNG library contracts (value ranges only); lemmas about reachability as a least fixed point "
    "(reach_induction, reach_mono, reach_trans, reach_sym), L3 (the lattice is connected), L4 (counting); acyclicity follows from "
    "connected + |E| = |V|-1 (textbook, not machine-checked); termination not proved (Wilson's walk terminates only almost surely)."
)
TECHNIQUE = "contract-based deductive verification: loop invariants + callee contracts over the real AST, z3; bounded enumeration of all RNG scripts as stand-in"
CONTRACT_MODULES = ["contracts.lattice_maze", "contracts.generators"]
G = "maze_dataset/generation/generators.py"
LM = "maze_dataset/maze/lattice_maze.py"
PROVE = [
    (G, "_random_start_coord"),
    (G, "get_neighbors_in_bounds"),
    (LM, "_fill_edges_with_walls"),
    (G, "LatticeMazeGenerators.gen_dfs"),
    (G, "LatticeMazeGenerators.gen_prim"),
    (G, "LatticeMazeGenerators.gen_wilson"),
    (G, "LatticeMazeGenerators.gen_percolation"),
    (G, "LatticeMazeGenerators.gen_dfs_percolation"),
    (LM, "LatticeMaze.nodes_connected"),
    (LM, "LatticeMaze.get_coord_neighbors"),
    (LM, "LatticeMaze.gen_connected_component_from"),
]
ASSUMPTIONS = [
    "grid_shape is passed as an ndarray of two ints >= 1 (MazeDatasetConfig.grid_shape_np does; gen_wilson rejects a tuple)",
    "lattice_dim == 2",
    "0 <= p <= 1; float accessible_cells / max_tree_depth <= 1 (the generators assert this)",
]
EXPLANATION = "see DESIGN.md C01"


def run(run):
    from props._std import run_bounded, run_lean

    run.prove(PROVE)
    run_lean(run)
    run_bounded(run, "C01")
