"""C05 - datasets survive serialization and disk round trips unchanged."""
ID = "C05"
LEVEL = "proof"
LEVEL_TEXT = (
    "PROVED (unbounded, z3; every dataset length, grid size and mix of solution lengths): BOTH minimal storage formats and the format selection. _serialize_minimal writes exactly the "
    "connection lists, the solution lengths and the padded solutions (shape agreement, int8/int32 range obligations, loop invariant); _load_minimal rebuilds mazes with exactly those arrays "
    "and the solution ends as start/end; _serialize_minimal_soln_cat writes the k-th solution at offset (sum of the earlier lengths) of the concatenation (running-offset invariant over prefix sums); "
    "_load_minimal_soln_cat cuts it back at the cumulative lengths (np.cumsum / np.split library contracts, cut positions ordered: an obligation); the two round-trip LEMMAS "
    "(same count, order, connection structure, solution, start, end) follow from the contracts alone; serialize() selects the minimal format exactly when a threshold is set and "
    "0 < len >= threshold, else the full one, for EVERY value of the module-global threshold, and calls _serialize_minimal only within its precondition; load() dispatches each minimal format to "
    "its own loader; a collection configuration stores one entry per member configuration in member order (each the member's own serialize()) and restores one per stored entry in stored order through MazeDatasetConfig.load (the two field lambdas, read as def f(x): return <expression>). NOT proved (muutils/zanj reflection and real files are outside the subset): the full format, configuration equality, collected-metadata counts, files, collections - "
    "decided by the bounded stand-in: round trips through all three formats, all threshold settings and real .zanj files for enumerated datasets (all generators, mixed solution lengths incl. "
    "length-1/2, with/without metadata, EMPTY datasets), and collections member by member (own and copied member configs, empty members); arrays compared with np.array_equal."
)
LEVEL_NOTE = ("Trusted: pyvc encoding; muutils/zanj internals (json_serialize / load_item_recursive are the identity on in-memory arrays; MazeDatasetConfig.load(serialize(cfg)) is cfg); the dataclass-generated "
              "initialiser of SolvedMaze's base class (SolvedMaze.__init__ and MazeDataset.__init__ themselves are verified against their bodies); torch Dataset.__init__ has no effect; np.cumsum / np.split library contracts; lemmas psum_monotone and psum_congruence (simple inductions). "
              "Configuration equality is judged on the configuration the dataset has after serialize() returned (minimal formats collect metadata in place: documented side effect).")
TECHNIQUE = "contract-based deductive verification of both minimal codecs, their round-trip lemmas, format selection and dispatch (loop invariants, library contracts, z3) + bounded run-time checking for the full format, files, metadata, configs and collections"
CONTRACT_MODULES = ["contracts.serialization", "contracts.collection"]
MD = "maze_dataset/dataset/maze_dataset.py"
L = "/verif/contracts/lemmas_src.py"
PROVE = [(MD, "MazeDataset._serialize_minimal"), (MD, "MazeDataset._load_minimal"), (L, "minimal_roundtrip"),
         (MD, "MazeDataset._serialize_minimal_soln_cat"), (MD, "MazeDataset._load_minimal_soln_cat"), (L, "soln_cat_roundtrip"),
         (MD, "MazeDataset.serialize"), (MD, "MazeDataset.load"), (MD, "MazeDataset.__init__"), ("maze_dataset/maze/lattice_maze.py", "SolvedMaze.__init__"),
         ("maze_dataset/dataset/collected_dataset.py", "MazeDatasetCollectionConfig.maze_dataset_configs@serialization_fn"),
         ("maze_dataset/dataset/collected_dataset.py", "MazeDatasetCollectionConfig.maze_dataset_configs@loading_fn")]
ASSUMPTIONS = ["assumed contract (muutils reflection, not verified against a body): MazeDataset._serialize_full; the branch of the minimal "
               "serializers that first collects generation metadata through the filter machinery is outside the verified subset (precondition: metadata already collected or absent)"]
EXPLANATION = "see DESIGN.md C05"


def run(run):
    from props._std import run_bounded, run_lean

    if PROVE:
        run.prove(PROVE)
    run_lean(run)
    run_bounded(run, "C05")
