import json, sys, glob, jsonschema
sch = json.load(open("/root/.vp/EVIDENCE.schema.json"))
for f in sorted(glob.glob("/verif/evidence/*.json")):
    ev = json.load(open(f)); jsonschema.validate(ev, sch)
    c = ev["coverage"]
    print(f, "ok", ev["level"], "obl", c.get("obligations"), "dis", c.get("discharged"), "evals", c.get("evaluations"), "dist", c.get("distinct_nontrivial"), "wall", ev["wall_s"])
