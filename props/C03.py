"""C03 - every item of a generated dataset is a correctly solved maze."""
ID = "C03"
LEVEL = "proof"
LEVEL_TEXT = (
    "PROVED (unbounded, z3; every grid shape >= 2x2, every generator argument combination, every endpoint option combination and EVERY random draw): the item "
    "_generate_maze_helper composes, for ALL FIVE generators (dfs, prim, Wilson, percolation, dfs+percolation) - item lemmas over the callees' contracts: the generated maze has the requested shape and is "
    "well-formed; the path returned by generate_random_path stays in the grid, follows only connections, repeats no cell, is a SHORTEST route between its ends (C02's optimality proof), "
    "starts in allowed_start / ends in allowed_end when given, ends differ when endpoints_not_equal and by default. generate_random_path itself is verified against its real body for all "
    "four metadata shapes the generators produce (candidate sets, dead-end filter through the neighbour-count contract, the option-free branch draws two distinct cells), given that the "
    "metadata tells the truth (C12, proved for every generator); get_connected_component (mutually reachable, distinct, in-grid cells) and SolvedMaze.__init__ (solution stored, start/end = "
    "its ends, both inside the grid, ValueError otherwise) and SolvedMaze.from_lattice_maze (the call the item helper ends with: connection structure kept, solution stored) are verified against their real bodies; the solver closure (find_shortest_path, neighbours, heuristic) is re-proved here. "
    "NOT proved: the dead-end clauses are proved on generate_random_path itself, not repeated at item level; the dataset length, "
    "worker-pool scheduling and MazeDataset.generate itself (multiprocessing, muutils config copy) - decided by the bounded stand-in: run-time checking of the real generate pipeline "
    "(serial and parallel pool sizes, all generators, option combinations) against the item contract."
)
LEVEL_NOTE = ("Trusted: pyvc encoding; RNG library contracts (value ranges only: every draw is a fresh universally quantified value, so a proved clause holds for every schedule and RNG state); "
              "dataclass-generated __init__ (stores fields, runs __post_init__); get_nodes (verified under C13: every cell once, row-major); lemmas reach_common, reach_induction, dist/astar_cut "
              "(C02); multiprocessing.Pool.imap delivers one result per task in task order (bounded runs only).")
TECHNIQUE = "contract-based deductive verification (endpoint selection, solved-maze construction, solver closure, item lemmas over generator contracts; z3) + bounded run-time checking of the real generate pipeline incl. worker pools"
CONTRACT_MODULES = ["contracts.lattice_maze", "contracts.solver", "contracts.generators", "contracts.serialization", "contracts.paths"]
F = "maze_dataset/maze/lattice_maze.py"
L = "/verif/contracts/lemmas_src.py"
PROVE = [
    (F, "LatticeMaze.heuristic"), (F, "LatticeMaze.nodes_connected"), (F, "LatticeMaze.get_coord_neighbors"), (F, "LatticeMaze.find_shortest_path"),
    (F, "LatticeMaze.get_connected_component"), (F, "LatticeMaze.generate_random_path"), (F, "SolvedMaze.__init__"), (F, "SolvedMaze.from_lattice_maze"),
    (L, "item_dfs"), (L, "item_wilson"), (L, "item_prim"), (L, "item_percolation"), (L, "item_dfs_percolation"),
]
ASSUMPTIONS = ["grid at least 2x2 (generate_random_path asserts it)", "the generator contracts used by the item lemmas are proved under C01/C12"]
EXPLANATION = "see DESIGN.md C03"


def run(run):
    from props._std import run_bounded, run_lean

    if PROVE:
        run.prove(PROVE)
    run_lean(run)
    run_bounded(run, "C03")
