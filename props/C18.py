"""C18 - configurations round-trip exactly and have stable, discriminating identities."""
ID = "C18"
LEVEL = "exploration"
LEVEL_TEXT = (
    "PROVED (z3; any configuration): stable_hash_cfg is stable_hash(json.dumps(self.serialize())) - a function of the serialized content only - and to_fname is "
    "sanitize_fname(name '-g' grid_n '-n' shorten(n_mazes) '-a_' generator-name-without-gen_ '-h' (that hash mod 10^5)) (library functions uninterpreted); GPTDatasetConfig.__post_init__ keeps every seed except None (0 included) and the other fields. Everything else is bounded: "
    + 'Bounded: serialize/load (also through JSON text) over a cross product of generators, kwargs, endpoint options, seeds and filter lists; hashes pairwise distinct for single-field differences, equal across 3 hash seeds; file name against the documented format.'
)
LEVEL_NOTE = "Trusted: muutils field walk (serialize/load), sha256 collision freedom, json.dumps / stable_hash / sanitize_fname / shorten_numerical_to_str as pure functions."
TECHNIQUE = "bounded run-time checking of the real code over an enumerated cross product (round trips, pairwise discrimination, hash seeds) + contracts on the two identity functions discharged by z3"
CONTRACT_MODULES = ["contracts.configs"]
MD = "maze_dataset/dataset/maze_dataset.py"
PROVE = [(MD, "MazeDatasetConfig.stable_hash_cfg"), (MD, "MazeDatasetConfig.to_fname"), ("maze_dataset/dataset/dataset.py", "GPTDatasetConfig.__post_init__")]
ASSUMPTIONS = []
EXPLANATION = "see DESIGN.md C18"


def run(run):
    from props._std import run_bounded

    if PROVE:
        run.prove(PROVE)
    run_bounded(run, "C18")
