"""Sidecar contract for LatticeMaze.find_shortest_path (C02: sound and complete; optimality is bounded)."""
from pyvc.contracts import contract, Loop
from pyvc import tys as T
import contracts.lattice_maze  # noqa: F401

F = "maze_dataset/maze/lattice_maze.py"

_IN_D = lambda v: f"({v} in open_vtx or {v} in closed_vtx)"  # noqa: E731

A_INV = {
    # A1: open and closed are disjoint; the start has been discovered; the goal is not closed
    "A1.disjoint": "forall(lambda i, j: not ((i, j) in open_vtx and (i, j) in closed_vtx), None, None)",
    "A1.start": "c_start in open_vtx or c_start in closed_vtx",
    "A1.goal-not-closed": "c_end not in closed_vtx",
    # A2: the predecessor structure: every discovered cell but the start has a closed predecessor joined by an edge, one step closer
    "A2.source": "forall(lambda i, j: implies(((i, j) in open_vtx or (i, j) in closed_vtx) and not (i == c_start[0] and j == c_start[1]),"
    " (i, j) in source and source[(i, j)] in closed_vtx and edge(self, source[(i, j)], (i, j))"
    " and g_score[(i, j)] == g_score[source[(i, j)]] + 1), None, None)",
    "A2.start-has-no-source": "c_start not in source",
    "A2.source-dom": "forall(lambda i, j: implies((i, j) in source, (i, j) in open_vtx or (i, j) in closed_vtx), None, None)",
    # A3: no discovered cell is cheaper than the start (so the start is never re-parented)
    "A3.start-minimal": "forall(lambda i, j: implies((i, j) in open_vtx or (i, j) in closed_vtx, g_score[(i, j)] >= g_score[c_start]), None, None)",
    # A4: everything discovered is reachable from the start and lies in the grid
    "A4.reach": "forall(lambda i, j: implies((i, j) in open_vtx or (i, j) in closed_vtx, reach(self, c_start, (i, j)) and in_grid(self, (i, j))), None, None)",
    # A5: every edge out of a closed cell ends in a discovered cell
    "A5.closed-edges": "forall(lambda i, j, a, b: implies((i, j) in closed_vtx and edge(self, (i, j), (a, b)), (a, b) in open_vtx or (a, b) in closed_vtx), None, None, None, None)",
    # A6: scores exist where they are read (no KeyError)
    "A6.g-scores": "forall(lambda i, j: implies((i, j) in open_vtx or (i, j) in closed_vtx, (i, j) in g_score), None, None)",
    "A6.f-scores": "forall(lambda i, j: implies((i, j) in open_vtx, (i, j) in f_score), None, None)",
}

# ---- optimality (C02 "exactly the minimum possible number of steps"): the classical A* argument with a consistent heuristic.
# G(v) := g_score[v] - g_score[c_start] is the length of the path found to v (the code stores the heuristic, not 0, at the start).
_H = lambda v: f"(abs({v}[0] - c_end[0]) + abs({v}[1] - c_end[1]))"  # noqa: E731
O_INV = {
    # O1: a found path is never shorter than the distance
    "O1.g>=dist": "forall(lambda i, j: implies((i, j) in open_vtx or (i, j) in closed_vtx, g_score[(i, j)] - g_score[c_start] >= dist(self, c_start, (i, j))), None, None)",
    # O2: closed cells carry their true distance
    "O2.closed-exact": "forall(lambda i, j: implies((i, j) in closed_vtx, g_score[(i, j)] - g_score[c_start] == dist(self, c_start, (i, j))), None, None)",
    # O5: every edge out of a closed cell has been relaxed
    "O5.relaxed": "forall(lambda i, j, a, b: implies((i, j) in closed_vtx and edge(self, (i, j), (a, b)), g_score[(a, b)] <= g_score[(i, j)] + 1), None, None, None, None)",
    # F: the priority of an open cell is g + manhattan distance to the goal (the start's own entry is 0.0 and is used only in the first iteration)
    "F.priority": "forall(lambda i, j: implies((i, j) in open_vtx and not (i == c_start[0] and j == c_start[1]),"
    " f_score[(i, j)] == g_score[(i, j)] + (abs(i - c_end[0]) + abs(j - c_end[1]))), None, None)",
    # S1: the start is open only in the first iteration
    "S1.start-first": "implies(c_start in open_vtx, forall(lambda i, j: (i, j) not in closed_vtx and implies((i, j) in open_vtx, i == c_start[0] and j == c_start[1]), None, None))",
}
A_INV.update(O_INV)

STATE = dict(
    open_vtx=T.SetT(2),
    closed_vtx=T.SetT(2),
    source=T.DictT(2, T.CoordTup),
    g_score=T.DictT(2, T.Real),
    f_score=T.DictT(2, T.Real),
)

INNER = dict(A_INV)
INNER["A5.closed-edges"] = (
    "forall(lambda i, j, a, b: implies((i, j) in closed_vtx and not (i == c_current[0] and j == c_current[1]) and edge(self, (i, j), (a, b)),"
    " (a, b) in open_vtx or (a, b) in closed_vtx), None, None, None, None)"
)
INNER["A5.current-so-far"] = "all_cands(_cands, _m, lambda g, v: implies(g, (v[0], v[1]) in open_vtx or (v[0], v[1]) in closed_vtx))"
INNER["A1.current-closed"] = "c_current in closed_vtx and c_current not in open_vtx"
INNER["O5.relaxed"] = (
    "forall(lambda i, j, a, b: implies((i, j) in closed_vtx and not (i == c_current[0] and j == c_current[1]) and edge(self, (i, j), (a, b)),"
    " g_score[(a, b)] <= g_score[(i, j)] + 1), None, None, None, None)"
)
INNER["O5.current-so-far"] = "all_cands(_cands, _m, lambda g, v: implies(g, g_score[(v[0], v[1])] <= g_score[c_current] + 1))"
INNER["S1.start-first"] = "c_start in closed_vtx"


# the soundness/completeness invariants (A*, R*) do not need the optimality facts: prove them from the A-family alone first
_A_FOCUS = ["inv:A*", "inv:R*", "axiom:reach"]
FOCUS0 = {lab: _A_FOCUS for lab in A_INV if lab.startswith("A") and not lab.startswith("A6")}
FOCUS2 = {lab: _A_FOCUS for lab in INNER if lab.startswith("A") and not lab.startswith("A6")}
# the key step (the cell just picked carries its true distance) uses the cut lemma, the relaxed edges and the priorities only
FOCUS2["O2.closed-exact"] = ["inv:O*", "inv:F*", "inv:S1*", "inv:A1*", "inv:A4*", "inv:A5*", "lemma-after", "axiom:*"]
FOCUS2["A6.f-scores"] = ["inv:A6*", "inv:A1*"]
FOCUS2["A6.g-scores"] = ["inv:A6*", "inv:A1*"]
FOCUS2["O1.g>=dist"] = ["inv:O1*", "inv:O2*", "inv:A1*", "inv:A4*", "inv:A6*", "axiom:*"]
FOCUS2["O5.relaxed"] = ["inv:O*", "inv:A1*", "inv:A4*", "inv:A5*", "axiom:*"]
FOCUS2["O5.current-so-far"] = ["inv:O5.current-so-far", "inv:O2*", "inv:A4*", "inv:A1*", "axiom:*"]


@contract(F, "LatticeMaze.find_shortest_path")
class find_shortest_path:
    params = dict(self=T.Maze(), c_start=T.CoordTup, c_end=T.CoordTup)
    requires = ["in_grid(self, c_start)", "in_grid(self, c_end)"]
    ensures = {
        "C02.nonempty": "nrows(result) >= 1",
        "C02.starts": "result[0][0] == c_start[0] and result[0][1] == c_start[1]",
        "C02.ends": "result[nrows(result) - 1][0] == c_end[0] and result[nrows(result) - 1][1] == c_end[1]",
        "C02.in-grid": "forall(lambda k: in_grid(self, result[k]), (0, nrows(result)))",
        "C02.along-connections": "forall(lambda k: edge(self, result[k], result[k + 1]), (0, nrows(result) - 1))",
        "C02.simple": "distinct_rows(result)",
        "C02.self-query": "implies(c_start[0] == c_end[0] and c_start[1] == c_end[1], nrows(result) == 1)",
        "C02.returns-only-if-connected": "reach(self, c_start, c_end)",
        # exactly the minimum possible number of steps
        "C02.optimal": "nrows(result) - 1 == dist(self, c_start, c_end)",
    }
    # right after the cell with the least priority is picked: a shortest path to it leaves the closed set through a tight edge
    lemma_after = {"c_current: CoordTup = min(": ["astar_cut(self, c_start, c_end, lambda v: v in closed_vtx, c_current)"]}
    raises = {"ValueError": "not reach(self, c_start, c_end)"}
    raise_lemmas = ["reach_induction(self, c_start, lambda v: v in final(closed_vtx))"]
    loops = {
        0: Loop(head="while open_vtx", havoc=STATE, inv=A_INV, focus=FOCUS0),
        1: Loop(
            head="while p_current in source",
            havoc=dict(path=T.ListT(T.CoordTup), p_current=T.CoordTup),
            inv={
                "R.tip": "len(path) >= 1 and p_current[0] == path[len(path) - 1][0] and p_current[1] == path[len(path) - 1][1]",
                "R.from-goal": "path[0][0] == c_end[0] and path[0][1] == c_end[1]",
                "R.discovered": "forall(lambda k: (path[k][0], path[k][1]) in open_vtx or (path[k][0], path[k][1]) in closed_vtx, (0, len(path)))",
                "R.steps": "forall(lambda k: edge(self, path[k + 1], path[k]), (0, len(path) - 1))",
                "R.g-decreases": "forall(lambda k: g_score[(path[k][0], path[k][1])] == g_score[c_end] - k, (0, len(path)))",
            },
        ),
        2: Loop(head="for _np_neighbor in self.get_coord_neighbors(c_current)", cut=True, havoc=STATE, inv=INNER, focus=FOCUS2),
    }
    result = T.ListT(T.CoordTup)
    props = ["C02", "C03"]
