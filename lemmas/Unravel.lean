/-
Row-major index algebra (DESIGN.md 4.3, "unravel"): the facts about k / C, k % C and i * C + j that the contract of
LatticeMaze.get_nodes uses.  In the SMT encoding (pyvc/npmodel4.py: unravel_axioms) the three functions
unravel_row(k, C) = k / C, unravel_col(k, C) = k % C, ravel_index(i, j, C) = i * C + j are uninterpreted and only these
four statements are given to the solver.  Division and remainder are the Euclidean ones of SMT-LIB, which agree with
Python's // and % for a positive divisor.
-/
import Mathlib

theorem unravel_a1 (C i j : ℤ) (hC : 0 < C) (hi : 0 ≤ i) (hj0 : 0 ≤ j) (hj : j < C) :
    (i * C + j) / C = i ∧ (i * C + j) % C = j ∧ 0 ≤ i * C + j := by
  refine ⟨?_, ?_, add_nonneg (mul_nonneg hi hC.le) hj0⟩
  · rw [add_comm, Int.add_mul_ediv_right _ _ (ne_of_gt hC), Int.ediv_eq_zero_of_lt hj0 hj, zero_add]
  · rw [add_comm, Int.add_mul_emod_self_right, Int.emod_eq_of_lt hj0 hj]

theorem unravel_a2 (C k : ℤ) (hC : 0 < C) (hk : 0 ≤ k) :
    (k / C) * C + k % C = k ∧ 0 ≤ k % C ∧ k % C < C ∧ 0 ≤ k / C := by
  refine ⟨?_, Int.emod_nonneg k (ne_of_gt hC), Int.emod_lt_of_pos k hC, Int.ediv_nonneg hk hC.le⟩
  have := Int.mul_ediv_add_emod k C
  linarith [mul_comm C (k / C)]

theorem unravel_a3 (R C k : ℤ) (hC : 0 < C) (hk : k < R * C) : k / C < R :=
  Int.ediv_lt_of_lt_mul hC hk

theorem unravel_a4 (R C i j : ℤ) (hi : i < R) (hj0 : 0 ≤ j) (hj : j < C) : i * C + j < R * C := by
  have hC : 0 ≤ C := by linarith
  have h1 : i * C ≤ (R - 1) * C := mul_le_mul_of_nonneg_right (by linarith) hC
  nlinarith [h1]
