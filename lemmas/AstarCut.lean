/-
astar_cut (DESIGN.md 4.3), the one graph lemma the optimality proof of `find_shortest_path` uses.

Setting: any type of cells, any edge relation; `walk n a b` = there is a walk of exactly n edges from a to b;
`IsDist s v d` = d is the length of a shortest walk from s to v.  `h` is any potential that changes by at most 1 across an edge
(the Manhattan distance to a fixed goal is one: moving to a lattice neighbour changes it by exactly 1).

Statement: if S contains s, v is reachable with distance d and v is not in S, then some edge (y, z) with y in S, z not in S satisfies
dist z = dist y + 1 and dist z + h z <= d + h v  (it lies on a shortest walk to v, and h is consistent along that walk).
-/
import Mathlib

variable {α : Type*} (edge : α → α → Prop)

inductive Walk : ℕ → α → α → Prop
  | nil (a : α) : Walk 0 a a
  | cons {n : ℕ} {a b c : α} : edge a b → Walk n b c → Walk (n + 1) a c

def IsDist (s v : α) (d : ℕ) : Prop := Walk edge d s v ∧ ∀ m, Walk edge m s v → d ≤ m

theorem Walk.append {n m : ℕ} {a b c : α} (h1 : Walk edge n a b) (h2 : Walk edge m b c) : Walk edge (n + m) a c := by
  induction h1 with
  | nil a => simpa using h2
  | cons e _ ih =>
    have := Walk.cons e (ih h2)
    simpa [Nat.add_right_comm, Nat.add_assoc, Nat.add_comm] using this

/-- splitting a walk at its last edge -/
theorem Walk.snoc_inv {n : ℕ} {a c : α} (h : Walk edge (n + 1) a c) : ∃ b, Walk edge n a b ∧ edge b c := by
  induction n generalizing a with
  | zero =>
    cases h with
    | cons e w => cases w with
      | nil _ => exact ⟨a, Walk.nil a, e⟩
  | succ n ih =>
    cases h with
    | cons e w =>
      obtain ⟨b, hb, ebc⟩ := ih w
      exact ⟨b, Walk.cons e hb, ebc⟩

/-- the potential changes by at most 1 per edge, hence by at most the length along a walk -/
theorem potential_along_walk (h : α → ℤ) (hlip : ∀ a b, edge a b → h a ≤ h b + 1) {n : ℕ} {a b : α}
    (w : Walk edge n a b) : h a ≤ h b + n := by
  induction w with
  | nil a => simp
  | cons e _ ih =>
    have := hlip _ _ e
    push_cast
    omega

/-- main lemma, by strong induction on the distance of v: walk back from v along a shortest walk until the set S is entered -/
theorem astar_cut (h : α → ℤ) (hlip : ∀ a b, edge a b → h a ≤ h b + 1) (S : α → Prop) (s : α) (hs : S s) :
    ∀ d : ℕ, ∀ v : α, ¬ S v → IsDist edge s v d →
      ∃ y z dy, S y ∧ ¬ S z ∧ edge y z ∧ IsDist edge s y dy ∧ IsDist edge s z (dy + 1) ∧ ((dy : ℤ) + 1) + h z ≤ d + h v := by
  intro d
  induction d using Nat.strong_induction_on with
  | _ d ih =>
    intro v hv hd
    obtain ⟨hw, hmin⟩ := hd
    cases d with
    | zero =>
      -- a walk of length 0 from s to v means v = s, but s is in S
      cases hw with
      | nil _ => exact absurd hs hv
    | succ d =>
      obtain ⟨y, hwy, eyv⟩ := Walk.snoc_inv edge hw
      -- y is at distance exactly d
      have hyd : IsDist edge s y d := by
        refine ⟨hwy, ?_⟩
        intro m hm
        have := hmin (m + 1) (by simpa using Walk.append edge hm (Walk.cons eyv (Walk.nil v)))
        omega
      by_cases hy : S y
      · -- the last edge of the shortest walk is the cut edge
        refine ⟨y, v, d, hy, hv, eyv, hyd, ⟨hw, hmin⟩, ?_⟩
        push_cast
        omega
      · -- recurse on y, then transport the inequality across the edge (y, v)
        obtain ⟨y', z', dy, hy', hz', e', hdy, hdz, hineq⟩ := ih d (Nat.lt_succ_self d) y hy hyd
        refine ⟨y', z', dy, hy', hz', e', hdy, hdz, ?_⟩
        have := hlip _ _ eyv
        push_cast
        omega
