"""Concrete reading of contracts: call the REAL function (imported from the repository tree under
check) on concrete arguments and evaluate the contract's clauses on what it actually did.
Used for (a) native replay of solver counterexamples, (b) bounded stand-ins, (c) prover/CPython
consistency checks."""
from __future__ import annotations

import copy
import importlib
import os
import sys
import warnings

import numpy as np
import z3

from . import tys as T
from .contracts import REGISTRY
from .interp import Ctx, Interp, State, exc_is_subclass
from .lift import lift
from .repo import REPO_ROOT, Repo
from .values import Outside, to_z3


def ensure_repo_on_path(root=None):
    root = root or os.environ.get("VERIF_REPO", "/repo")
    if sys.path[0] != root:
        if root in sys.path:
            sys.path.remove(root)
        sys.path.insert(0, root)
    return root


def import_target(file, qualname):
    ensure_repo_on_path()
    modname = file[:-3].replace("/", ".")
    mod = importlib.import_module(modname)
    obj = mod
    parts = qualname.split(".")
    owner = None
    for p in parts:
        owner = obj
        obj = getattr(obj, p)
    return mod, owner, obj


def make_object(d):
    """record dict (from concretize) -> real repository object"""
    if not isinstance(d, dict) or "__cls__" not in d:
        return d
    ensure_repo_on_path()
    cls = d["__cls__"]
    from maze_dataset.maze import lattice_maze as lm

    fields = {k: make_object(v) for k, v in d.items() if k != "__cls__"}
    if cls in ("LatticeMaze", "TargetedLatticeMaze", "SolvedMaze"):
        c = getattr(lm, cls)
        if "connection_list" in fields:
            fields["connection_list"] = np.asarray(fields["connection_list"], dtype=np.bool_)
        return c(**fields)
    raise Outside(f"cannot build real object of class {cls}")


class RTResult:
    def __init__(self):
        self.status = "ok"  # ok | violated | skipped | undecided
        self.clause = None
        self.detail = None
        self.result_repr = None
        self.exception = None


def _decide(pc, c):
    """closed formula c under facts pc: True / False / None(undecided)"""
    if c is True:
        return True
    if c is False:
        return False
    s = z3.Solver()
    s.set("timeout", 20000)
    for h in pc:
        s.add(h)
    s.add(z3.Not(to_z3(c)))
    r = s.check()
    if r == z3.unsat:
        return True
    if r == z3.sat:
        return False
    return None


def check_call(contract, args: dict, repo=None, quiet=True) -> RTResult:
    """args: parameter name -> real value (records as dicts with __cls__, or real objects with matching fields)"""
    res = RTResult()
    repo = repo or Repo(os.environ.get("VERIF_REPO", "/repo"))
    mod = repo.module(contract.file)
    fnode, cnode = mod.find(contract.qualname)
    ctx = Ctx(repo, REGISTRY, fn_label="rt:" + contract.qualname, options={"spec_mode": True})
    ctx.current_contract = contract
    ctx.current_mod = mod
    interp = Interp(ctx)
    st = State(mod=mod, cls=cnode)
    real = {}
    is_init = contract.qualname.endswith(".__init__")
    for name, ty in contract.params.items():
        ty0 = ty.alternatives()[0] if isinstance(ty, T.OneOf) else ty
        v = args[name]
        if isinstance(ty, T.OneOf):
            ty0 = _pick_alternative(ty, v)
        if isinstance(ty0, T.ClassT):
            # a classmethod's cls: the class the contract names (the real call goes through the class attribute, already bound)
            st.env[name] = ty0.fresh(name)[0]
            real[name] = None
            continue
        if is_init and name == "self":
            # a constructor is replayed by calling the class: there is no object yet
            st.env[name] = lift(v if not isinstance(v, dict) else _DictView(v), ty0)
            continue
        try:
            real[name] = make_object(v)
        except Outside:
            raise
        except Exception as e:  # noqa: BLE001  (the generated value is not a valid object of its class: not a case of this contract)
            res.status = "skipped"
            res.detail = f"argument {name} cannot be constructed: {type(e).__name__}: {str(e)[:120]}"
            return res
        st.env[name] = lift(v if not isinstance(v, dict) else _DictView(v), ty0)
    pre_env = dict(st.env)
    st.env["__pre__"] = pre_env
    for name, expr in contract.lets.items():
        st.env[name] = REGISTRY.eval_clause_value(interp, st, expr)
        pre_env[name] = st.env[name]
    for r in contract.requires:
        c = REGISTRY.eval_clause(interp, st, r)
        d = _decide(st.pc, c)
        if d is not True:
            res.status = "skipped"
            res.detail = f"precondition not met: {r}"
            return res
    # call the real function
    _, owner, fn = import_target(contract.file, contract.qualname)
    call_args = {k: (copy.deepcopy(v) if k in contract.modifies else v) for k, v in real.items()}
    exc = None
    out = None
    with warnings.catch_warnings():
        warnings.simplefilter("ignore")
        try:
            if is_init and owner is not None and isinstance(owner, type):
                pa, kw = _split_args(fn, {"self": None, **call_args})
                out = owner(*pa[1:], **kw)
            elif "self" in call_args:
                slf = call_args.pop("self")
                bound = getattr(slf, contract.qualname.split(".")[-1])
                pa, kw = _split_args(bound, call_args)
                out = bound(*pa, **kw)
                call_args["self"] = slf
            else:
                if "cls" in call_args and owner is not None and isinstance(owner, type):
                    call_args = {k: v for k, v in call_args.items() if k != "cls"}  # classmethod: bound to its class
                pa, kw = _split_args(fn, call_args)
                out = fn(*pa, **kw)
        except Exception as e:  # noqa: BLE001
            exc = e
    if exc is not None:
        res.exception = f"{type(exc).__name__}: {str(exc)[:200]}"
        name = type(exc).__name__
        for ename, cond in contract.raises.items():
            if exc_is_subclass(name, ename) or any(b.__name__ == ename for b in type(exc).__mro__):
                c = True if cond in (None, True) else REGISTRY.eval_clause(interp, st, cond)
                d = _decide(st.pc, c)
                if d is True:
                    return res
                res.status = "violated" if d is False else "undecided"
                res.clause = f"raises[{ename}]: {cond}"
                return res
        res.status = "violated"
        res.clause = f"no-exception[{name}]"
        return res
    res.result_repr = repr(out)[:300]
    env = dict(pre_env)
    for m in contract.modifies:
        ty0 = contract.params[m]
        env[m] = lift(call_args[m], ty0)
    rty = contract.result
    if callable(rty) and not isinstance(rty, T.Type):
        rty = rty(pre_env)
    try:
        env["result"] = lift(out, rty) if out is not None else None
    except Outside as e:
        res.status = "violated" if contract.options.get("result_shape_is_contract") else "undecided"
        res.clause = "result-shape"
        res.detail = f"result does not have the declared structure: {e.msg}"
        return res
    env["__pre__"] = pre_env
    pst = State(env, list(st.pc), [], mod, cnode)
    for lab, clause in contract.ensures.items():
        try:
            c = REGISTRY.eval_clause(interp, pst, clause)
        except Outside as e:
            res.status = "undecided"
            res.clause = lab
            res.detail = f"clause not evaluable concretely: {e.msg}"
            return res
        d = _decide(pst.pc, c)
        if d is False:
            res.status = "violated"
            res.clause = f"ensures[{lab}]: {clause}"
            return res
        if d is None:
            res.status = "undecided"
            res.clause = lab
            return res
    return res


def _split_args(fn, named):
    """positional-only / positional parameters are passed by position, the rest by keyword"""
    import inspect

    try:
        sig = inspect.signature(fn)
    except (TypeError, ValueError):
        return [], dict(named)
    pos, kw = [], dict(named)
    for p in sig.parameters.values():
        if p.kind in (p.POSITIONAL_ONLY, p.POSITIONAL_OR_KEYWORD) and p.name in kw:
            pos.append(kw.pop(p.name))
        elif p.kind in (p.POSITIONAL_ONLY, p.POSITIONAL_OR_KEYWORD):
            break
    return pos, kw


class _DictView:
    """attribute access over a record dict so lift(RecT) can use getattr"""

    def __init__(self, d):
        self.__dict__.update({k: (_DictView(v) if isinstance(v, dict) and "__cls__" in v else v) for k, v in d.items()})


def _pick_alternative(ty, v):
    for alt in ty.alternatives():
        if isinstance(alt, T.RecT):
            cls = v.get("__cls__") if isinstance(v, dict) else type(v).__name__
            if cls == alt.cls:
                return alt
            continue
        if isinstance(alt, T.NoneT) and v is None:
            return alt
        if isinstance(alt, T.Const) and alt.v == v and type(alt.v) == type(v):
            return alt
        if isinstance(alt, T._Scalar) and v is not None and not isinstance(v, (np.ndarray, list, tuple, dict)):
            if alt.kind == "float" and isinstance(v, float):
                return alt
            if alt.kind == "int" and isinstance(v, (int, np.integer)) and not isinstance(v, bool):
                return alt
            if alt.kind == "bool" and isinstance(v, (bool, np.bool_)):
                return alt
        if isinstance(alt, (T.ArrT, T.GridT)) and isinstance(v, np.ndarray):
            return alt
    return ty.alternatives()[0]
